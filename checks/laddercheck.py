"""C17: price helpers and order validation vs the exchange's ladders (Ladder.tla)."""
import os
import sys
import json
import math
import time
import random
import shutil

ROOT = os.path.dirname(os.path.dirname(os.path.abspath(__file__)))
sys.path.insert(0, ROOT)

from harness import tlc  # noqa: E402
from checks.simcheck import run_design  # noqa: E402
from checks.runcheck import validate_cases, finish  # noqa: E402

TABS = {
    "CLASSIC": [(1010, 2000, 10), (2000, 3000, 20), (3000, 4000, 50), (4000, 6000, 100), (6000, 10000, 200), (10000, 20000, 500), (20000, 30000, 1000), (30000, 50000, 2000), (50000, 100000, 5000), (100000, 1000000, 10000)],
    "BETDAQ": [(1010, 3000, 10), (3000, 4000, 50), (4000, 10000, 100), (10000, 20000, 500), (20000, 50000, 1000), (50000, 200000, 2000), (200000, 1000000, 5000)],
}


def ticks_of(tab):
    out = []
    for lo, hi, st in TABS[tab]:
        out += list(range(lo, hi, st))
    out.append(1000000)
    return out


def milli(x):
    return int(round(float(x) * 1000))


def chunks(l, n):
    for i in range(0, len(l), n):
        yield l[i:i + n]


def run_check(tier, seed):
    t0 = time.time()
    designs = [
        {"module": "MC_Ladder", "constants": {"Tab": '"CLASSIC"', "Moves": "<- MovesDef", "Probes": "<- ProbesDef"},
         "invariants": ["Inv_Count", "Inv_OnLadder", "Inv_MoveInverse", "Inv_Clamped", "Inv_NearestIdempotent", "Inv_NearestOfProbes"]},
        {"module": "MC_Ladder", "constants": {"Tab": '"BETDAQ"', "Moves": "<- MovesDef", "Probes": "<- ProbesDef"},
         "invariants": ["Inv_Count", "Inv_OnLadder", "Inv_MoveInverse", "Inv_Clamped", "Inv_NearestIdempotent", "Inv_NearestOfProbes"]},
    ]
    design = run_design(designs, tier)
    if design.get("failed"):
        print("SPEC-ERROR property=C17 %s" % json.dumps(design["failed"])[:3000])
        return 2
    from flumine import utils
    from flumine.utils import get_nearest_price, price_ticks_away, make_line_prices
    cases = []
    nid = [0]

    def add(kind, **kw):
        nid[0] += 1
        cases.append(dict(kind=kind, id="%s%d" % (kind, nid[0]), **kw))
    # the module's own ladders
    add("ladder", tab="CLASSIC", prices=[milli(p) for p in utils.PRICES])
    add("ladder", tab="BETDAQ", prices=[milli(p) for p in utils.BETDAQ_PRICES])
    add("ladder", tab="FINEST", prices=[milli(p) for p in utils.FINEST_PRICES])
    # nearest price: every point of the 0.001 grid in [0, 1100] (thorough) / a stride + all mid-points (quick)
    stride = 1 if tier == "thorough" else 7
    for tab, cut in (("CLASSIC", utils.CUTOFFS), ("BETDAQ", utils.BETDAQ_CUTOFFS)):
        pairs = []
        for xm in range(0, 1100001, stride):
            pairs.append([xm, 0, milli(get_nearest_price(xm / 1000.0, cut))])
        tk = ticks_of(tab)
        for a, b in zip(tk, tk[1:]):
            for xm2 in {(a + b) // 2, (a + b + 1) // 2, a + 1, b - 1, a + 4, a + 5, a + 6}:
                if a <= xm2 <= b:
                    x = xm2 / 1000.0
                    pairs.append([xm2, 0, milli(get_nearest_price(x, cut))])
                    if (a + b) % 2 == 0 and xm2 == (a + b) // 2:   # float neighbours of an exact mid-point
                        pairs.append([xm2, 1, milli(get_nearest_price(math.nextafter(x, 1e9), cut))])
                        pairs.append([xm2, -1, milli(get_nearest_price(math.nextafter(x, -1e9), cut))])
            pairs.append([a, 1, milli(get_nearest_price(math.nextafter(a / 1000.0, 1e9), cut))])
            pairs.append([a, -1, milli(get_nearest_price(math.nextafter(a / 1000.0, -1e9), cut))])
        for ch in chunks(pairs, 5000):
            add("nearest", tab=tab, pairs=ch)
        idem = [[t, milli(get_nearest_price(t / 1000.0, cut))] for t in tk]
        add("idem", tab=tab, pairs=idem)
    # ticks away: every tick x every n in [-400, 400]
    for tab, floats in (("CLASSIC", None), ("BETDAQ", utils.BETDAQ_PRICES_FLOAT)):
        tk = ticks_of(tab)
        ns = range(-400, 401) if tier == "thorough" else list(range(-400, 401, 9)) + [-1, 1, 2, -2, 349, -349, 350, -350, 564, -564]
        triples = []

        def away(t, n):
            try:
                return milli(price_ticks_away(t / 1000.0, n, floats))
            except Exception:       # an exception is a wrong answer, not a failure of the check
                return -1
        for i, t in enumerate(tk):
            # every tick: the moves that land exactly on / one beyond either end of the ladder
            edge = {len(tk) - 1 - i, len(tk) - i, len(tk) - i + 1, -i, -i - 1, -i + 1}
            for n in sorted(set(ns) | {e for e in edge if -1200 <= e <= 1200}):
                triples.append([t, n, away(t, n)])
        for ch in chunks(triples, 8000):
            add("ticks", tab=tab, triples=ch)
    # line ladders with the half- and whole-unit intervals the exchange uses
    lines = []
    for lo, hi, st in [(0.5, 300.5, 0.5), (0.5, 300.5, 1.0), (0.0, 200.0, 1.0), (100.5, 220.5, 1.0), (1.0, 10.0, 0.5), (0.5, 0.5, 0.5), (2.5, 999.5, 1.0)]:
        lines.append({"lo": milli(lo), "hi": milli(hi), "step": milli(st), "prices": [milli(p) for p in make_line_prices(lo, hi, st)]})
    add("line", lines=lines)
    # order validation decision table on real orders
    rows = validation_rows(tier, seed)
    for ch in chunks(rows, 3000):
        add("valid", rows=ch)
    wd = tlc.workdir("c17")
    res = {"viol": [], "states": 0, "errors": [], "drift": []}
    try:
        for ch in chunks(cases, 60):
            r = validate_cases(ch, ["C17"], wd, module="LadderTrace")
            res["viol"] += r["viol"]
            res["states"] += r["states"]
            res["errors"] += r["errors"]
    finally:
        shutil.rmtree(wd, ignore_errors=True)
    n_eval = sum(len(c.get("pairs", [])) + len(c.get("triples", [])) + len(c.get("rows", [])) + len(c.get("prices", [])) for c in cases)
    samples = [{"kind": c["kind"], "id": c["id"], "head": (c.get("pairs") or c.get("triples") or c.get("rows") or c.get("prices") or c.get("lines"))[:3]} for c in cases[:2] + cases[-2:]]
    rc = finish("C17", tier, seed, design, cases, res, samples, t0,
                rule="get_nearest_price on the 0.001 grid in [0,1100] (stride %d) plus every tick, every mid-point, its neighbours and float neighbours; price_ticks_away on every tick x n in [-400,400]%s; make_line_prices on exchange intervals; OrderValidation on real orders over the decision table (price on/off each ladder x size classes around every threshold x type x side x currencies x min_bet_validation); %d evaluations in %d batches" % (stride, "" if tier == "thorough" else " (stride 9 + edges)", n_eval, len(cases)),
                assumptions=["at an exact mid-point either neighbouring tick is accepted", "threshold rows use exactly representable products; rows within 1e-9 of a threshold are not generated"])
    return rc


def validation_rows(tier, seed):
    from flumine.controls.tradingcontrols import OrderValidation
    from flumine.order.trade import Trade
    from flumine.order.order import BetfairOrder, BetdaqOrder, OrderStatus
    from flumine.order.ordertype import LimitOrder, LimitOnCloseOrder, MarketOnCloseOrder, BetdaqLimitOrder
    from flumine.order.orderpackage import OrderPackageType
    from flumine.exceptions import ControlError
    from flumine import BaseStrategy, clients
    from betfairlightweight.resources.bettingresources import LineRangeInfo
    from betfairlightweight.metadata import currency_parameters
    rnd = random.Random(seed)
    control = OrderValidation(None)
    strategy = BaseStrategy(market_filter={}, name="V")
    rows = []

    def client_for(cur, validate, live=False):
        if live:
            # the live client reads the account currency from the exchange's account details
            from unittest import mock
            from betfairlightweight.resources import AccountDetails
            from betfairlightweight.exceptions import APIError
            bc = mock.Mock()
            bc.lightweight = False
            details = AccountDetails(**{"currencyCode": cur, "discountRate": 0.0})
            if live == "fault_first":
                # the first poll of the account details fails (swallowed), the minimums are read in that window
                # (any validation does), a later poll succeeds
                bc.account.get_account_details.side_effect = [APIError(None, "getAccountDetails", {}, Exception("down")), details, details]
            else:
                bc.account.get_account_details.return_value = details
            c = clients.BetfairClient(bc, min_bet_validation=validate)
            c.update_account_details()
            if live == "fault_first":
                _ = (c.min_bet_size, c.min_bet_payout, c.min_bsp_liability)
                c.update_account_details()
            return c

        class C(clients.SimulatedClient):
            CURRENCY_CODE = cur
        c = C(username="c", min_bet_validation=validate)
        c.update_account_details()
        return c
    prices_on = [1.01, 1.5, 2.0, 2.02, 3.05, 4.1, 6.2, 10.5, 21.0, 32.0, 55.0, 110.0, 1000.0]
    prices_off = [1.0, 1.005, 2.01, 3.01, 4.05, 6.1, 10.2, 20.5, 31.0, 51.0, 105.0, 1001.0, 0.0]
    finest_on, finest_off = [1.01, 1.02, 2.01, 3.33, 999.99, 1000.0], [1.0, 1.005, 2.005, 1000.01]
    sizes = [0.0, -1.0, 0.001, 0.005, 0.01, 0.5, 0.99, 0.999, 1.0, 1.001, 1.01, 2.0, 2.5, 5.0, 10.0, 9.99, 19.99, 20.0, 150.0, 4000.0, 2.345]
    curs = ["GBP", "EUR", "USD", "HKD", "AUD", "DKK", "HUF"] if tier == "thorough" else ["GBP", "EUR", "HKD"]
    for cur, live in [(c, l) for c in curs for l in (False, True, "fault_first")]:
        cp = currency_parameters[cur]
        acct_sizes = sorted(set(sizes + [cp["min_bet_size"], cp["min_bet_size"] - 0.01, cp["min_bet_size"] - 0.001, cp["min_bet_size"] + 0.01, cp["min_bsp_liability"], cp["min_bsp_liability"] - 0.01, cp["min_bsp_liability"] + 0.01,
                                      cp["min_bet_payout"] / 2.0, cp["min_bet_payout"] / 4.0, cp["min_bet_payout"] / 5.0]))
        for validate in (True, False):
            client = client_for(cur, validate, live)
            acct = {"minsize": cp["min_bet_size"], "minpayout": cp["min_bet_payout"], "minbsp": cp["min_bsp_liability"], "validate": validate}

            def judge(order, o):
                order.update_client(client)
                try:
                    control(order, OrderPackageType.PLACE)
                    acc = True
                except ControlError:
                    acc = False
                # at an exact payout threshold the float product decides: skip rows within 1e-9 of it
                if o["type"] == "LIMIT" and o["exchange"] == "BETFAIR" and o["price"] > 0 and o["size"] > 0:
                    prod = (o["price"] / 1000.0) * (o["size"] / 1000.0)
                    if abs(prod - cp["min_bet_payout"]) < 1e-9 and not float(prod).is_integer():
                        return
                rows.append({"o": o, "acct": acct, "accepted": acc, "status_violation": order.status == OrderStatus.VIOLATION})
            for side in ("BACK", "LAY"):
                for lad, plist in (("CLASSIC", prices_on + prices_off), ("FINEST", finest_on + finest_off)):
                    for p in plist:
                        for sz in (acct_sizes if lad == "CLASSIC" and p in (2.0, 4.1, 1.01, 2.01, 1000.0) else [2.0, 0.5, 0.0]):
                            t = Trade("1.1", 1, 0, strategy)
                            order = t.create_order(side, LimitOrder(price=p, size=sz, price_ladder_definition=lad))
                            judge(order, {"exchange": "BETFAIR", "type": "LIMIT", "side": side, "ladder": lad, "price": milli(p), "size": milli(sz), "line": [0, 0, 1]})
                # (two line markets with the same range and different intervals meet the same control instance, in both orders)
                for (lo, hi, st) in [(0.5, 300.5, 0.5), (0.0, 200.0, 1.0), (0.0, 100.0, 1.0), (0.0, 100.0, 0.5), (1.0, 50.0, 0.5), (1.0, 50.0, 1.0)]:
                    for p in [0.5, 1.0, 150.5, 151.0, 300.5, 301.0, 0.25, 200.0, 0.0, 10.5, 11.0, 49.5, 50.0, 99.5]:
                        t = Trade("1.1", 1, 0, strategy)
                        lri = LineRangeInfo(marketUnit="R", interval=st, minUnitValue=lo, maxUnitValue=hi)
                        order = t.create_order(side, LimitOrder(price=p, size=2.0, price_ladder_definition="LINE_RANGE", line_range_info=lri))
                        if p == 0.0:
                            continue  # price 0.0 is falsy but not None: outside the table
                        judge(order, {"exchange": "BETFAIR", "type": "LIMIT", "side": side, "ladder": "LINE_RANGE", "price": milli(p), "size": 2000, "line": [milli(lo), milli(hi), milli(st)]})
                for liab in acct_sizes:
                    for p in (2.0, 2.01, 1000.0):
                        t = Trade("1.1", 1, 0, strategy)
                        order = t.create_order(side, LimitOnCloseOrder(liability=liab, price=p))
                        judge(order, {"exchange": "BETFAIR", "type": "LIMIT_ON_CLOSE", "side": side, "ladder": "CLASSIC", "price": milli(p), "size": milli(liab), "line": [0, 0, 1]})
                    t = Trade("1.1", 1, 0, strategy)
                    order = t.create_order(side, MarketOnCloseOrder(liability=liab))
                    judge(order, {"exchange": "BETFAIR", "type": "MARKET_ON_CLOSE", "side": side, "ladder": "CLASSIC", "price": -1, "size": milli(liab), "line": [0, 0, 1]})
                for p in [1.01, 2.99, 3.0, 3.02, 3.05, 9.9, 10.5, 19.5, 20.0, 50.0, 51.0, 52.0, 200.0, 202.0, 205.0, 1000.0, 1.0]:
                    for sz in (2.0, 0.0, 0.001, 1.005):
                        t = Trade("1.1", 1, 0, strategy)
                        order = t.create_betdaq_order(side, BetdaqLimitOrder(price=p, size=sz, betdaq_runner_id=1, runner_reset_count=0, withdrawal_sequence_number=0))
                        judge(order, {"exchange": "BETDAQ", "type": "LIMIT", "side": side, "ladder": "BETDAQ", "price": milli(p), "size": milli(sz), "line": [0, 0, 1]})
    return rows
