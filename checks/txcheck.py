"""C02: refused requests change nothing; accepted requests are sent exactly once.
(a) SimTrace formulas (P_C02) on random simulation runs with the real controls;
(b) packaging: long request sequences on real Transaction objects for the three client kinds,
    packages captured at process_order_package, judged by TxTrace.tla against Transaction.tla."""
import os
import sys
import json
import time
import random
import shutil
import datetime

ROOT = os.path.dirname(os.path.dirname(os.path.abspath(__file__)))
sys.path.insert(0, ROOT)

from harness import tlc, findings  # noqa: E402
from checks.simcheck import run_design  # noqa: E402
from checks.runcheck import validate_cases, finish  # noqa: E402


class _MB:
    def __init__(self):
        self.publish_time = datetime.datetime(2023, 11, 14, 22, 0, 0)
        self.bet_delay = 0
        self.version = 7
        self.status = "OPEN"
        self.runners = []


class _Flumine:
    def __init__(self):
        self.trading_controls = []
        self.packages = []

    def process_order_package(self, p):
        self.packages.append(p)

    def log_control(self, ev):
        pass


class ScriptedControl:
    """a custom control: refuses (ControlError) exactly the (order, kind) pairs it is told to"""
    NAME = "SCRIPTED"

    def __init__(self):
        self.refuse = set()

    def __call__(self, order, package_type):
        from flumine.exceptions import ControlError
        if (id(order), package_type.name) in self.refuse:
            raise ControlError("scripted refusal")


def snap(order):
    return (order.status, len(order.status_log), dict(order.update_data), getattr(order.order_type, "persistence_type", None), order.trade.status, len(order.trade.orders))


def packaging_case(cid, rnd, exchange, n_req, burst=False):
    """burst: one long transaction, rarely flushed, most requests amendments - every kind's pending list grows well past
    its own per-call limit while the other kinds (with other limits) are pending in the same transaction"""
    from flumine import clients, BaseStrategy, config as fconfig
    from flumine.markets.market import Market
    from flumine.order.trade import Trade
    from flumine.order.order import OrderStatus
    from flumine.order.ordertype import LimitOrder, BetdaqLimitOrder
    from flumine.order.orderpackage import OrderPackageType
    from flumine.exceptions import OrderError, OrderUpdateError
    fl = _Flumine()
    ctl = ScriptedControl()
    fl.trading_controls.append(ctl)
    if exchange == "SIMULATED":
        client = clients.SimulatedClient(username="c")
    elif exchange == "BETFAIR":
        client = clients.BetfairClient(betting_client=type("B", (), {"username": "bf", "lightweight": False})())
    else:
        client = clients.BetdaqClient(betting_client=type("B", (), {"username": "bd"})())

    class Exec:
        EXCHANGE = client.EXCHANGE
    client.execution = Exec()
    market = Market(fl, "1.5", _MB())
    strategy = BaseStrategy(market_filter={}, name="T", max_live_trade_count=10 ** 6)
    events, refused, live = [], [], []
    labels = {}

    def new_order(i):
        trade = Trade("1.5", 10 + (i % 5), 0, strategy)
        if exchange == "BETDAQ":
            o = trade.create_betdaq_order("BACK", BetdaqLimitOrder(price=2.0, size=2.0, betdaq_runner_id=1, runner_reset_count=0, withdrawal_sequence_number=0))
        else:
            o = trade.create_order("BACK", LimitOrder(2.0, 2.0))
        o.id = "%s_%d" % (cid, i)
        labels[id(o)] = "o%d" % i
        return o
    n_orders = 0
    txn = market.transaction(client=client)
    txn.__enter__()
    for k in range(n_req):
        x = rnd.random()
        if x < (0.003 if burst else 0.02):
            txn.execute()
            events.append(["execute"])
            continue
        if burst:
            kind = rnd.choice(["PLACE"] * 4 + ["CANCEL"] * 3 + ["UPDATE"] * 2 + ["REPLACE"] * 3) if len(live) > 3 else "PLACE"
        else:
            kind = rnd.choice(["PLACE"] * 6 + ["CANCEL", "CANCEL", "UPDATE", "REPLACE", "REPLACE"]) if live else "PLACE"
        force = rnd.random() < 0.05
        refuse = rnd.random() < 0.1
        ver = rnd.choice([None, None, 7, 8])
        if kind == "PLACE":
            n_orders += 1
            o = new_order(n_orders)
        else:
            o = rnd.choice(live)
            # make it eligible (acknowledged, executable) or not
            if rnd.random() < 0.85:
                o.bet_id = o.bet_id or "b%s" % labels[id(o)]
                o.status = OrderStatus.EXECUTABLE
            o.update_client(client)
        if refuse:
            ctl.refuse.add((id(o), kind))
        before = snap(o)
        r = "ERROR"
        try:
            if kind == "PLACE":
                ok = txn.place_order(o, market_version=ver, force=force)
            elif kind == "CANCEL":
                ver = None
                ok = txn.cancel_order(o, force=force)
            elif kind == "UPDATE":
                ver = None
                if exchange == "BETDAQ":
                    ok = txn.update_order(o, size_delta=1.0, force=force)
                else:
                    ok = txn.update_order(o, "PERSIST" if o.order_type.persistence_type != "PERSIST" else "LAPSE", force=force)
            else:
                ok = txn.replace_order(o, rnd.choice([2.02, 2.04, 3.0]), market_version=ver, force=force)
            r = "ACCEPT" if ok else "REFUSE"
        except (OrderError, OrderUpdateError):
            r = "ERROR"
        ctl.refuse.discard((id(o), kind))
        after = snap(o)
        if r != "ACCEPT":
            same = before == after or (kind == "PLACE" and r == "REFUSE" and after[0] == OrderStatus.VIOLATION and o.id not in market.blotter and after[2:] == before[2:])
            refused.append({"kind": kind, "o": labels[id(o)], "r": r, "same": bool(same), "forced": force})
        else:
            if kind == "PLACE":
                live.append(o)
            else:  # request accepted: the order is now in flight (not eligible until re-acknowledged)
                pass
        events.append(["req", kind, labels[id(o)], ver if ver is not None else 0, r])
    txn.__exit__(None, None, None)
    events.append(["exit"])
    kindname = {OrderPackageType.PLACE: "PLACE", OrderPackageType.CANCEL: "CANCEL", OrderPackageType.UPDATE: "UPDATE", OrderPackageType.REPLACE: "REPLACE"}
    pkgs = [[kindname[p.package_type], [labels[id(o)] for o in p._orders], p._market_version if p._market_version is not None else 0] for p in fl.packages]
    pending_after = bool(txn._pending_place or txn._pending_cancel or txn._pending_update or txn._pending_replace or txn._pending_orders)
    return {"id": cid, "exchange": exchange, "events": events, "pkgs": pkgs, "pkg_types": [type(p).__name__.replace("OrderPackage", "").upper() and kindname[p.package_type] for p in fl.packages],
            "pending_after": pending_after, "refused": refused, "pkg_class": sorted(set(type(p).__name__ for p in fl.packages))}


def run_check(tier, seed):
    t0 = time.time()
    from checks import props
    from checks.simcheck import run_check as sim_run
    designs = [{"module": "MC_Transaction", "constants": {"N": "3"}, "invariants": ["Inv_ExactlyOnceAfterExit", "Inv_NeverTwice", "Inv_WithinLimit", "Inv_NothingPendingAfterExit", "Inv_OneVersionPerPackage"], "must_reach": ["Reach_TwoChunks"]},
               {"module": "MC_Transaction", "constants": {"N": "4"}, "invariants": ["Inv_ExactlyOnceAfterExit", "Inv_NeverTwice", "Inv_WithinLimit", "Inv_NothingPendingAfterExit", "Inv_OneVersionPerPackage"], "tier": "thorough", "timeout": 1500}]
    # (a) simulation traces with the real controls
    conf = dict(props.SIM["C02"])
    conf["designs"] = designs
    rc_a = sim_run("C02", conf, tier, seed, keep_evidence=True)
    if rc_a == 2:
        return 2
    # (b) packaging on real Transaction objects
    rnd = random.Random(seed)
    cases = []
    n = 30 if tier == "quick" else 400
    for i in range(n):
        ex = ["SIMULATED", "BETFAIR", "BETDAQ"][i % 3]
        size = rnd.choice([0, 1, 5, 40, 130, 450, 700]) if ex != "BETDAQ" else rnd.choice([0, 3, 12, 35, 120])
        cases.append(dict(packaging_case("tx%d" % i, rnd, ex, size), kind="packaging"))
    for i in range(6 if tier == "quick" else 90):
        ex = ["SIMULATED", "BETFAIR", "BETDAQ"][i % 3]
        size = rnd.choice([450, 700, 900]) if ex != "BETDAQ" else rnd.choice([120, 260])
        cases.append(dict(packaging_case("txb%d" % i, rnd, ex, size, burst=True), kind="packaging"))
    wd = tlc.workdir("c02")
    try:
        res = validate_cases(cases, ["C02"], wd, module="TxTrace")
        res["drift"] = []
    finally:
        shutil.rmtree(wd, ignore_errors=True)
    # merge with the evidence of part (a)
    ev_path = os.path.join(ROOT, "evidence", "C02.json")
    with open(ev_path) as f:
        ev_a = json.load(f)
    design = {"states": ev_a["coverage"]["design_states"], "transitions": ev_a["coverage"]["transitions"] - ev_a["coverage"]["trace_states_checked"], "runs": ev_a["coverage"]["design_runs"]}
    res["states"] += ev_a["coverage"]["trace_states_checked"]
    samples = ev_a["coverage"]["samples"][:1] + [{"exchange": cases[-1]["exchange"], "requests": len(cases[-1]["events"]), "packages": [[p[0], len(p[1]), p[2]] for p in cases[-1]["pkgs"]][:12]}]
    rc_b = finish("C02", tier, seed, design, cases + [{"kind": "simtrace", "id": "sim%d" % i} for i in range(ev_a["coverage"]["traces_validated_against_impl"])], res, samples, t0,
                  rule="(a) %d random simulation runs with the real default controls refusing by configuration (limits, closed market, transaction limit, invalid orders) - every request's before/after snapshot and every package judged by P_C02 of SimTrace.tla; (b) %d request sequences (0..700 requests, kinds / versions / forced / refused by a scripted custom control / ineligible orders, explicit execute() calls) on real Transaction objects for simulated, Betfair and Betdaq clients with the true per-call limits, packages captured at process_order_package and compared with Transaction!Expected" % (ev_a["coverage"]["traces_validated_against_impl"], len(cases)),
                  assumptions=ev_a.get("assumptions", []) + ["the exchange's per-call limits 200/60/60/60 (Betfair) are constants of the specification; Betdaq limits as documented in the code (10/10/50)"])
    return max(rc_a, rc_b)
