"""Hand-written scenario families that the random generator reaches only rarely."""


def _bk(atb, atl, trd):
    return {"atb": atb, "atl": atl, "trd": trd}


def two_market_removal(sid="x_two_market_removal", af=10.0, event_processing=False, t2=100000):
    """the same selection with the same adjustment factor is removed in two markets of one run"""
    def market(mid, t0):
        ups = []
        for k in range(3):
            ups.append({"pt": t0 + 1000 * k, "version": 1, "rstat": {"11": ["ACTIVE", af, None], "12": ["ACTIVE", 50.0, None]},
                        "books": {"11": _bk([[2.0, 10]], [[2.4, 10]], []), "12": _bk([[3.0, 10]], [[3.4, 10]], [[3.2, 4.0 * k]])}})
        for k in range(3, 6):
            ups.append({"pt": t0 + 1000 * k, "version": 2, "rstat": {"11": ["REMOVED", af, None], "12": ["ACTIVE", 50.0, None]},
                        "books": {"12": _bk([[3.0, 10]], [[3.4, 10]], [[3.2, 4.0 * k]])}})
        return {"id": mid, "event_id": "30000001", "market_type": "WIN", "winners": 1, "bsp": True, "persistence": True, "runners": [11, 12], "updates": ups}
    m1 = market("1.100000001", 0)
    m2 = market("1.100000002", 500 if event_processing else t2)
    script = {}
    for m in (m1, m2):
        t0 = m["updates"][0]["pt"]
        script["%s|%d|book" % (m["id"], t0)] = [
            {"op": "place", "o": "a_%s" % m["id"][-1], "sel": 11, "side": "BACK", "price": 2.2, "size": 2.0},
            {"op": "place", "o": "b_%s" % m["id"][-1], "sel": 12, "side": "BACK", "price": 3.0, "size": 2.0},
        ]
    return {"id": sid, "cfg": {"event_processing": event_processing}, "markets": [m1, m2],
            "strategies": [{"name": "A", "max_live_trade_count": 10, "script": script}]}


def family_two_market_removal(tier, seed):
    out = []
    for i, af in enumerate([None, 0.0, 2.4, 2.5, 10.0, 45.5, 99.0] if tier == "thorough" else [2.5, 10.0]):
        out.append(two_market_removal("x_rm_seq_%d" % i, af=af))
        out.append(two_market_removal("x_rm_evt_%d" % i, af=af, event_processing=True))
    return out
