"""Hand-written scenario families that the random generator reaches only rarely."""


def _bk(atb, atl, trd):
    return {"atb": atb, "atl": atl, "trd": trd}


def two_market_removal(sid="x_two_market_removal", af=10.0, event_processing=False, t2=100000):
    """the same selection with the same adjustment factor is removed in two markets of one run"""
    def market(mid, t0):
        ups = []
        for k in range(3):
            ups.append({"pt": t0 + 1000 * k, "version": 1, "rstat": {"11": ["ACTIVE", af, None], "12": ["ACTIVE", 50.0, None]},
                        "books": {"11": _bk([[2.0, 10]], [[2.4, 10]], []), "12": _bk([[3.0, 10]], [[3.4, 10]], [[3.2, 4.0 * k]])}})
        for k in range(3, 6):
            ups.append({"pt": t0 + 1000 * k, "version": 2, "rstat": {"11": ["REMOVED", af, None], "12": ["ACTIVE", 50.0, None]},
                        "books": {"12": _bk([[3.0, 10]], [[3.4, 10]], [[3.2, 4.0 * k]])}})
        return {"id": mid, "event_id": "30000001", "market_type": "WIN", "winners": 1, "bsp": True, "persistence": True, "runners": [11, 12], "updates": ups}
    m1 = market("1.100000001", 0)
    m2 = market("1.100000002", 500 if event_processing else t2)
    script = {}
    for m in (m1, m2):
        t0 = m["updates"][0]["pt"]
        script["%s|%d|book" % (m["id"], t0)] = [
            {"op": "place", "o": "a_%s" % m["id"][-1], "sel": 11, "side": "BACK", "price": 2.2, "size": 2.0},
            {"op": "place", "o": "b_%s" % m["id"][-1], "sel": 12, "side": "BACK", "price": 3.0, "size": 2.0},
        ]
    return {"id": sid, "cfg": {"event_processing": event_processing}, "markets": [m1, m2],
            "strategies": [{"name": "A", "max_live_trade_count": 10, "script": script}]}


def family_two_market_removal(tier, seed):
    out = []
    for i, af in enumerate([None, 0.0, 2.4, 2.5, 10.0, 45.5, 99.0] if tier == "thorough" else [2.5, 10.0]):
        out.append(two_market_removal("x_rm_seq_%d" % i, af=af))
        out.append(two_market_removal("x_rm_evt_%d" % i, af=af, event_processing=True))
    return out


def settlement_scenario(sid, mtype, statuses, winners, prices, size, ewd=None, line=None, line_result=None, clients=1):
    """full-match market: every order is matched in full at its own price, a BACK and a LAY at the same
    price/size on every runner (identical fills), then the market closes with the given statuses"""
    runners = [11 + i for i in range(len(statuses))]
    rstat_open = {str(r): ["ACTIVE", None, None] for r in runners}
    ups = [{"pt": 1000 * k, "version": 1, "rstat": rstat_open, "books": {str(r): _bk([], [], []) for r in runners}} for k in range(4)]
    ups.append({"pt": 5000, "status": "CLOSED", "version": 2, "rstat": {str(r): [statuses[i], None, None] for i, r in enumerate(runners)}, "books": {}})
    m = {"id": "1.100000001", "event_id": "30000001", "market_type": mtype, "winners": winners, "bsp": True, "persistence": True, "runners": runners, "updates": ups}
    if ewd:
        m["each_way_divisor"] = ewd
    acts = []
    n = 0
    for i, r in enumerate(runners):
        for side in ("BACK", "LAY"):
            n += 1
            a = {"op": "place", "o": "o%d" % n, "t": "t%d" % n, "sel": r, "side": side, "price": prices[i % len(prices)], "size": size}
            if line:
                a["ladder"] = "LINE_RANGE"
                a["line"] = line
            acts.append(a)
    scn = {"id": sid, "cfg": {"full_match": True}, "markets": [m],
           "strategies": [{"name": "A", "max_live_trade_count": 100, "script": {"1.100000001|0|book": acts}}]}
    if line:
        m["ladder"] = "LINE_RANGE"
        m["betting_type"] = "LINE"
        m["line"] = [line[1], line[0], line[2]]
        scn["line_results"] = {"1.100000001": line_result}
    if clients > 1:
        scn["clients"] = [{"name": "c1", "commission": 0.05}, {"name": "c2", "commission": 0.02}]
    return scn


def line_replace_scenario(sid, side, line0, line1, result):
    """line market: an order rests on one line, is re-priced to another line (replace) where it is matched, then the
    market settles: the replacement is an order of the line market like the one it replaces"""
    avail = [[149.5, 10.0]], [[152.5, 10.0]]
    rstat = {"11": ["ACTIVE", None, None]}
    ups = [{"pt": 1000 * k, "version": 1, "rstat": rstat, "books": {"11": _bk(avail[0], avail[1], [])}} for k in range(6)]
    ups.append({"pt": 7000, "status": "CLOSED", "version": 2, "rstat": {"11": ["WINNER", None, None]}, "books": {}})
    m = {"id": "1.100000001", "event_id": "30000001", "market_type": "COMBINED_TOTAL", "winners": 1, "bsp": False, "persistence": True, "runners": [11], "updates": ups,
         "ladder": "LINE_RANGE", "betting_type": "LINE", "line": [300.5, 0.5, 0.5]}
    script = {"1.100000001|0|book": [{"op": "place", "o": "l1", "t": "tl1", "sel": 11, "side": side, "price": line0, "size": 2.0, "ladder": "LINE_RANGE", "line": [0.5, 300.5, 0.5]}],
              "1.100000001|2000|book": [{"op": "replace", "o": "l1", "price": line1}]}
    return {"id": sid, "cfg": {}, "markets": [m], "strategies": [{"name": "A", "max_live_trade_count": 100, "script": script}], "line_results": {"1.100000001": result}}


def family_settlement(tier, seed):
    out = []
    k = 0
    prices_sets = [[1.01, 2.0, 3.5], [1.5, 10.0, 50.0]] if tier == "quick" else [[1.01, 2.0, 3.5], [1.5, 10.0, 50.0], [1.02, 4.1, 29.0], [100.0, 6.2, 1.2]]
    sizes = [2.0, 2.36] if tier == "quick" else [2.0, 2.36, 0.5, 17.77]
    for prices in prices_sets:
        for size in sizes:
            for mtype, statuses, winners, ewd in [
                ("WIN", ["WINNER", "LOSER", "LOSER"], 1, None),
                ("WIN", ["WINNER", "WINNER", "LOSER"], 1, None),      # dead heat of two
                ("WIN", ["WINNER", "WINNER", "WINNER"], 1, None),     # dead heat of three
                ("WIN", ["REMOVED", "WINNER", "LOSER"], 1, None),
                ("PLACE", ["WINNER", "WINNER", "LOSER"], 2, None),
                ("EACH_WAY", ["WINNER", "PLACED", "LOSER"], 1, 4.0),
                ("EACH_WAY", ["PLACED", "WINNER", "LOSER"], 1, 5.0),
            ]:
                k += 1
                out.append(settlement_scenario("x_st_%d" % k, mtype, statuses, winners, prices, size, ewd=ewd))
    for result in ([149.5, 150.5, 151.5, 150.0, 151.0] if tier == "thorough" else [149.5, 151.5, 151.0]):
        for line in ([150.5, 151.0] if tier == "thorough" else [150.5, 151.0]):
            k += 1
            out.append(settlement_scenario("x_line_%d" % k, "COMBINED_TOTAL", ["WINNER"], 1, [line], 2.0, line=[0.5, 300.5, 0.5], line_result=result))
    for side, l0, l1 in (("LAY", 150.5, 152.5), ("BACK", 151.5, 149.5)):
        for result in (148.0, 151.0, 153.0):
            k += 1
            out.append(line_replace_scenario("x_line_rep_%d" % k, side, l0, l1, result))
    return out


def closure_scenario(sid, pattern, n_strategies=2, second_market=None, place=True, empty_filter=False):
    """pattern: string over O (open update), C (closed update), e.g. 'OOC', 'OOCC', 'OOCOC', 'C'"""
    def market(mid, t0, pat):
        ups = []
        for k, ch in enumerate(pat):
            if ch == "O":
                ups.append({"pt": t0 + 1000 * k, "version": 1 + k, "books": {"11": _bk([[2.0, 10]], [[2.4, 10]], [[2.2, 2.0 * k]]), "12": _bk([[3.0, 10]], [[3.4, 10]], [])}})
            else:
                # a market that re-opens is settled again, possibly with an amended result: the closures after a re-opening name the other winner
                amended = "C" in pat[:k]        # any closure after the first one (with or without a re-opening in between) names the other winner
                res = {"11": ["LOSER", None, None], "12": ["WINNER", None, None]} if amended else {"11": ["WINNER", None, None], "12": ["LOSER", None, None]}
                ups.append({"pt": t0 + 1000 * k, "status": "CLOSED", "version": 1 + k, "rstat": res, "books": {}, "force_md": True})
        return {"id": mid, "event_id": "30000001", "market_type": "WIN", "winners": 1, "bsp": True, "persistence": True, "runners": [11, 12], "updates": ups}
    markets = [market("1.100000001", 0, pattern)]
    if second_market:
        markets.append(market("1.100000002", second_market[1], second_market[0]))
    strategies = []
    for i in range(n_strategies):
        name = "ABC"[i]
        script = {}
        if place and "O" in pattern:
            t = 1000 * pattern.index("O")
            script["1.100000001|%d|book" % t] = [{"op": "place", "o": "%so1" % name.lower(), "sel": 11, "side": "BACK", "price": 2.0, "size": 2.0}]
        st = {"name": name, "markets": [0] if (i == 1 and second_market) else list(range(len(markets))), "script": script, "max_live_trade_count": 5}
        if empty_filter and i == n_strategies - 1:
            st["empty_filter"] = True
        strategies.append(st)
    return {"id": sid, "cfg": {}, "markets": markets, "strategies": strategies, "clients": [{"name": "c1"}, {"name": "c2", "commission": 0.02}]}


def family_closure(tier, seed):
    out = []
    pats = ["OOC", "OOCC", "OOCOC", "C", "OC", "OOCCOCC", "CC", "OOO"]
    for i, p in enumerate(pats):
        out.append(closure_scenario("x_cl_%d" % i, p))
        out.append(closure_scenario("x_cl_e%d" % i, p, n_strategies=3, empty_filter=True))
    out.append(closure_scenario("x_cl_two_a", "OOC", second_market=("OOOC", 100000)))
    out.append(closure_scenario("x_cl_two_b", "OOOOC", second_market=("OC", 100000)))
    out.append(closure_scenario("x_cl_two_c", "C", second_market=("OOC", 100000)))
    return out


def exposure_replace(sid, side="LAY", price=1.5, new_price=50.0, size=10.0, limit=10.0, fill=True):
    """an acknowledged resting order is re-priced; all three limits are set to `limit`"""
    def bk(k):
        # after the replacement rests, volume trades through its price so that it fills
        trd = [[new_price, 400.0]] if (fill and k >= 5) else []
        return {"11": _bk([[1.2, 50]], [[200.0, 50]], trd), "12": _bk([[3.0, 10]], [[3.4, 10]], [])}
    ups = [{"pt": 1000 * k, "version": 1, "books": bk(k)} for k in range(8)]
    script = {
        "1.100000001|0|book": [{"op": "place", "o": "o1", "sel": 11, "side": side, "price": price, "size": size}],
        "1.100000001|2000|book": [{"op": "replace", "o": "o1", "price": new_price}],
    }
    return {"id": sid, "cfg": {}, "markets": [{"id": "1.100000001", "event_id": "30000001", "market_type": "WIN", "winners": 1, "bsp": True, "persistence": True, "runners": [11, 12], "updates": ups}],
            "strategies": [{"name": "A", "max_order_exposure": limit, "max_selection_exposure": limit, "max_market_exposure": limit, "max_live_trade_count": 1, "script": script}]}


def exposure_cancel_then_place(sid, partial=None, gap=100):
    """an acknowledged resting order uses the whole selection limit; in one callback the strategy cancels it (wholly or
    in part) and places another order of the same trade on the selection: the cancel is only requested, the remainder
    can still fill, so the new order must be judged with it counted in full"""
    def up(pt, trd=0.0):
        return {"pt": pt, "version": 1, "books": {"11": _bk([[2.0, 50]], [[2.2, 50]], [[2.1, trd]]), "12": _bk([[3.0, 10]], [[3.4, 10]], [])}}
    ups = [up(0), up(1000), up(2000), up(2000 + gap, 40.0), up(4000, 40.0), up(5000, 80.0)]
    c = {"op": "cancel", "o": "o1"}
    if partial:
        c["reduction"] = partial
    script = {"1.100000001|0|book": [{"op": "place", "o": "o1", "t": "t1", "sel": 11, "side": "BACK", "price": 2.1, "size": 10.0}],
              "1.100000001|2000|book": [c, {"op": "place", "o": "o2", "t": "t1", "sel": 11, "side": "BACK", "price": 2.1, "size": 10.0}]}
    return {"id": sid, "cfg": {}, "markets": [{"id": "1.100000001", "event_id": "30000001", "market_type": "WIN", "winners": 1, "bsp": True, "persistence": True, "runners": [11, 12], "updates": ups}],
            "strategies": [{"name": "A", "max_selection_exposure": 10.0, "max_order_exposure": 10.0, "multi_order_trades": True, "max_live_trade_count": 1, "script": script}]}


def exposure_green_then_lay(sid, market_limit=100.0):
    """selection limit and market limit both set; a selection that is green on both outcomes is laid again: nothing is
    added on that selection, but the profit-if-it-wins that covered the stakes on the other runners goes"""
    def up(pt):
        books = {str(r): _bk([[3.0, 500], [2.0, 500]], [[4.0, 500]], []) for r in (11, 12, 13)}
        books["11"] = _bk([[3.0, 500], [2.0, 500]], [[2.0, 500], [4.0, 500]], [])
        return {"pt": pt, "version": 1, "books": books}
    ups = [up(1000 * k) for k in range(8)]
    seq = [("g1", 11, "BACK", 3.0, 60.0), ("g2", 11, "LAY", 2.0, 90.0), ("g3", 12, "BACK", 3.0, 60.0), ("g4", 13, "BACK", 3.0, 40.0), ("g5", 11, "LAY", 2.0, 30.0)]
    script = {}
    for i, (lab, sel, side, price, size) in enumerate(seq):
        script["1.100000001|%d|book" % (1000 * i)] = [{"op": "place", "o": lab, "t": "t" + lab, "sel": sel, "side": side, "price": price, "size": size}]
    return {"id": sid, "cfg": {}, "markets": [{"id": "1.100000001", "event_id": "30000001", "market_type": "WIN", "winners": 1, "bsp": True, "persistence": True, "runners": [11, 12, 13], "updates": ups}],
            "strategies": [{"name": "A", "max_selection_exposure": 200.0, "max_order_exposure": 200.0, "max_market_exposure": market_limit, "max_live_trade_count": 5, "script": script}]}


def exposure_same_price(sid, side="LAY", n=3, price=3.0, size=4.0, limit=20.0):
    """several acknowledged orders of one strategy rest on a selection at the SAME price (orders of one trade / several
    live trades); each further one must be judged with all the earlier ones counted: LAY 4 @ 3.0 risks 8 each, the
    limit of 20 admits two, not a third (BACK 4 risks 4 each: limit 10)"""
    def up(pt, trd=0.0):
        return {"pt": pt, "version": 1, "books": {"11": _bk([[2.0, 50]], [[4.0, 50]], [[price, trd]] if trd else []), "12": _bk([[3.0, 10]], [[3.4, 10]], [])}}
    ups = [up(1000 * k) for k in range(n + 2)] + [up(1000 * (n + 2), 200.0), up(1000 * (n + 3), 200.0)]
    script = {}
    for i in range(n + 1):
        script["1.100000001|%d|book" % (1000 * i)] = [{"op": "place", "o": "s%d" % i, "t": "ts%d" % i, "sel": 11, "side": side, "price": price, "size": size}]
    return {"id": sid, "cfg": {}, "markets": [{"id": "1.100000001", "event_id": "30000001", "market_type": "WIN", "winners": 1, "bsp": True, "persistence": True, "runners": [11, 12], "updates": ups}],
            "strategies": [{"name": "A", "max_selection_exposure": limit, "max_order_exposure": limit, "max_live_trade_count": 10, "script": script}]}


def exposure_hedged_order(sid, first=("BACK", 5.0, 10.0), second=("LAY", 3.0, 12.0), order_limit=10.0, selection_limit=10.0, market_limit=None):
    """a matched position on the selection, then an order of the opposite side whose OWN loss is beyond the per-order limit
    while the selection as a whole stays within its limit thanks to the hedge: the per-order limit binds on its own"""
    s1, p1, z1 = first
    s2, p2, z2 = second
    def up(pt):
        # both orders can be matched at once (prices available on both sides of each)
        return {"pt": pt, "version": 1, "books": {"11": _bk([[p1, 500]] if s1 == "BACK" else [[p2, 500]], [[p2, 500]] if s2 == "LAY" else [[p1, 500]], []),
                                                  "12": _bk([[3.0, 10]], [[3.4, 10]], [])}}
    ups = [up(1000 * k) for k in range(7)]
    script = {"1.100000001|0|book": [{"op": "place", "o": "h1", "t": "th1", "sel": 11, "side": s1, "price": p1, "size": z1}],
              "1.100000001|3000|book": [{"op": "place", "o": "h2", "t": "th2", "sel": 11, "side": s2, "price": p2, "size": z2}]}
    st = {"name": "A", "max_order_exposure": order_limit, "max_selection_exposure": selection_limit, "max_live_trade_count": 10, "script": script}
    if market_limit is not None:
        st["max_market_exposure"] = market_limit
    return {"id": sid, "cfg": {}, "markets": [{"id": "1.100000001", "event_id": "30000001", "market_type": "WIN", "winners": 1, "bsp": True, "persistence": True, "runners": [11, 12], "updates": ups}],
            "strategies": [st]}


def family_exposure(tier, seed):
    out = [exposure_hedged_order("x_exp_hedged_lay"), exposure_hedged_order("x_exp_hedged_lay_sel5", selection_limit=5.0, first=("BACK", 5.0, 5.0)),
           exposure_hedged_order("x_exp_hedged_back", first=("LAY", 3.0, 5.0), second=("BACK", 2.0, 13.0)),
           exposure_hedged_order("x_exp_hedged_lay_mkt", market_limit=50.0), exposure_hedged_order("x_exp_hedged_lay_ord20", order_limit=20.0, selection_limit=10.0),
           exposure_same_price("x_exp_same_price_lay"), exposure_same_price("x_exp_same_price_back", side="BACK", limit=10.0),
           exposure_same_price("x_exp_same_price_lay2", price=2.5, size=6.0, limit=20.0),
           exposure_cancel_then_place("x_exp_cancel_place"), exposure_cancel_then_place("x_exp_cancel_part_place", partial=4.0),
           exposure_cancel_then_place("x_exp_cancel_place_slow", gap=500),
           exposure_green_then_lay("x_exp_green_lay"), exposure_green_then_lay("x_exp_green_lay_90", market_limit=90.0),
           exposure_replace("x_exp_lay_up"), exposure_replace("x_exp_lay_small", new_price=1.6), exposure_replace("x_exp_back", side="BACK", price=50.0, new_price=40.0, size=8.0),
           exposure_replace("x_exp_lay_nofill", fill=False),
           sp_lay_rounding("x_exp_sp_400"), sp_lay_rounding("x_exp_sp_3", sp=3.37, size=7.0, price=2.5)]
    return out


def sp_lay_rounding(sid, price=2.0, size=10.0, sp=400.0, limit=10.0):
    """LAY limit order with MARKET_ON_CLOSE persistence carried to a very high starting price"""
    ups = []
    for k in range(3):
        ups.append({"pt": 1000 * k, "version": 1, "books": {"11": _bk([[1.2, 50]], [[price + 0.5, 50]], []), "12": _bk([[3.0, 10]], [[3.4, 10]], [])}})
    for k in range(3, 6):
        ups.append({"pt": 1000 * k, "version": 2, "inplay": True, "bsp_rec": True, "bet_delay": 1,
                    "rstat": {"11": ["ACTIVE", None, sp], "12": ["ACTIVE", None, 3.2]},
                    "books": {"11": _bk([[1.2, 50]], [[price + 0.5, 50]], []), "12": _bk([[3.0, 10]], [[3.4, 10]], [])}})
    script = {"1.100000001|0|book": [{"op": "place", "o": "o1", "sel": 11, "side": "LAY", "price": price, "size": size, "pers": "MARKET_ON_CLOSE"}]}
    return {"id": sid, "cfg": {}, "markets": [{"id": "1.100000001", "event_id": "30000001", "market_type": "WIN", "winners": 1, "bsp": True, "persistence": True, "runners": [11, 12], "updates": ups}],
            "strategies": [{"name": "A", "max_order_exposure": limit, "max_selection_exposure": limit, "max_live_trade_count": 1, "script": script}]}


def family_replace_package(tier, seed):
    """replace / cancel / update packages of several orders of which some complete during the latency"""
    import json, os
    out = []
    here = os.path.dirname(os.path.dirname(os.path.abspath(__file__)))
    with open(os.path.join(here, "findings", "D10_replace_package_with_completed_order_misaligned.scn.json")) as f:
        base = json.load(f)
    for i, op in enumerate(["replace", "cancel", "update"]):
        scn = json.loads(json.dumps(base))
        scn["id"] = "x_pkg_%s" % op
        acts = scn["strategies"][0]["script"]["1.100000001|2000|book"][0]["actions"]
        for a in acts:
            a["op"] = op
            if op == "update":
                a["pers"] = "PERSIST"
        out.append(scn)
    return out


def family_realdata(tier, seed):
    """the recorded Betfair stream files shipped with the repository's tests, traded by seeded reactive
    strategies (harness/realdata.py): real ladders, odd reported volumes, re-images, suspensions with version
    changes, in-play, SP reconciliation, removals, closure"""
    from harness import realdata
    out = []
    plans = [(["win6", "place6"], dict(p_action=0.25, event_processing=True)), (["basic14"], dict(p_action=0.15, max_orders=20))]
    if tier == "thorough":
        plans = []
        for k in range(6):
            plans += [(["win6"], dict(p_action=0.3)), (["place6"], dict(p_action=0.3)), (["win6", "place6"], dict(p_action=0.2, event_processing=bool(k % 2))),
                      (["basic14"], dict(p_action=0.1 + 0.05 * (k % 3), max_orders=24))]
        # the two long recordings: the first 2 500 lines each (a trace of ~15 000 steps), with and without listener filters
        plans += [(["mo2"], dict(p_action=0.02, max_orders=24, max_lines=2500)), (["self"], dict(p_action=0.02, max_orders=24, max_lines=2500)),
                  (["mo2"], dict(p_action=0.03, max_orders=30, max_lines=4000, listener_kwargs={"inplay": False})),
                  (["self"], dict(p_action=0.03, max_orders=30, max_lines=4000, listener_kwargs={"seconds_to_start": 600}))]
    for i, (keys, kw) in enumerate(plans):
        scn = realdata.scenario(keys, "real%d" % i, seed * 101 + i, **kw)
        if scn["markets"]:
            out.append(scn)
    return out


def family_place_grid(tier, seed):
    """placement grid (the real-code counterpart of MC_SimMatch's place mode): two- and three-level books x
    limit orders priced through / at / between / behind the levels x sizes around the level sums x
    fill-or-kill with a minimum fill below / at / above what the levels within the limit offer, both sides,
    best-price execution on and off.  Placements do not consume the book, so every order of a scenario
    meets the same book."""
    import itertools
    books = [
        ([[3.0, 1.0], [2.5, 5.0]], [[3.2, 2.0], [3.6, 4.0]]),
        ([[3.0, 2.0], [2.9, 2.0], [2.0, 6.0]], [[3.1, 1.0], [3.15, 3.0], [4.0, 5.0]]),
        ([[13.0, 1.0], [10.0, 5.0]], [[13.5, 1.0], [16.0, 5.0]]),
        ([[3.0, 4.0]], [[3.05, 4.0]]),
    ]
    if tier == "thorough":
        books += [([[2.0, 0.5], [1.99, 0.5], [1.5, 20.0]], [[2.02, 0.5], [2.04, 0.5], [3.0, 20.0]]),
                  ([[5.0, 3.0], [4.9, 3.0]], []), ([], [[5.0, 3.0], [5.1, 3.0]])]
    out = []
    k = 0
    for bi, (atb, atl) in enumerate(books):
        for bpe in (True, False):
            acts = []
            n = 0
            for side in ("BACK", "LAY"):
                same = atb if side == "BACK" else atl
                if not same:
                    continue
                best = same[0][0]
                second = same[1][0] if len(same) > 1 else best
                last = same[-1][0]
                tot = sum(x[1] for x in same)
                if side == "BACK":   # a back order takes prices >= its limit
                    prices = [round(best + 0.1, 2), best, round((best + second) / 2, 2), second, round((second + last) / 2, 2) if len(same) > 2 else round(last - 0.1, 2), round(last - 0.2, 2)]
                else:
                    prices = [round(best - 0.1, 2), best, round((best + second) / 2, 2), second, round((second + last) / 2, 2) if len(same) > 2 else round(last + 0.1, 2), round(last + 0.2, 2)]
                sizes = [round(same[0][1] / 2, 2), same[0][1], round(same[0][1] + 1.0, 2), tot, round(tot + 1.0, 2)]
                for price, size in itertools.product(prices, sizes):
                    if price <= 1.01:
                        continue
                    for fok, mf in ((False, None), (True, None), (True, round(size / 2, 2)), (True, same[0][1]), (True, round(same[0][1] + 0.5, 2))):
                        if mf is not None and mf > size:
                            continue
                        n += 1
                        a = {"op": "place", "o": "g%d" % n, "t": "tg%d" % n, "sel": 11, "side": side, "price": price, "size": size}
                        if fok:
                            a["tif"] = "FILL_OR_KILL"
                            if mf is not None:
                                a["min_fill"] = mf
                        acts.append(a)
            # valid ladder prices only (the validation control would refuse the others)
            from harness.simdrv import _tick_move
            for a in acts:
                a["price"] = _tick_move(a["price"], 0)
            chunk = 40
            for c0 in range(0, len(acts), chunk):
                k += 1
                ups = [{"pt": 1000 * j, "status": "OPEN", "version": 1, "rstat": {"11": ["ACTIVE", 50.0, None], "12": ["ACTIVE", 50.0, None]},
                        "books": {"11": _bk(atb, atl, []), "12": _bk([[5.0, 10.0]], [[5.5, 10.0]], [])}} for j in range(3)]
                m = {"id": "1.100000001", "event_id": "30000001", "market_type": "WIN", "winners": 1, "bsp": True, "persistence": True, "runners": [11, 12], "updates": ups}
                out.append({"id": "pg%d" % k, "cfg": {"bpe": bpe}, "markets": [m],
                            "strategies": [{"name": "A", "max_live_trade_count": 1000, "max_trade_count": 100000, "script": {"1.100000001|0|book": acts[c0:c0 + chunk]}}]})
    # prices that are valid on the market's own ladder but not on the classic one: FINEST (0.01 steps) and a
    # LINE_RANGE market (the "price" is the line): placement must use the order's price as it is
    for tag, mdef, atb, atl, orders in (
        ("fin", {"ladder": "FINEST"}, [[3.05, 4.0], [3.0, 4.0]], [[3.06, 4.0], [3.1, 4.0]],
         [("BACK", 3.02, 6.0), ("BACK", 3.07, 2.0), ("BACK", 3.05, 6.0), ("LAY", 3.08, 6.0), ("LAY", 3.03, 2.0), ("LAY", 3.06, 6.0), ("BACK", 2.99, 10.0), ("LAY", 3.11, 10.0)]),
        ("lin", {"ladder": "LINE_RANGE", "line": [300.5, 0.5, 1.0], "betting_type": "LINE", "market_type": "INNINGS_RUNS"}, [[152.5, 4.0], [150.5, 4.0]], [[156.5, 4.0], [158.5, 4.0]],
         [("BACK", 154.5, 6.0), ("BACK", 151.5, 6.0), ("BACK", 152.5, 2.0), ("LAY", 155.5, 6.0), ("LAY", 157.5, 6.0), ("LAY", 156.5, 2.0), ("BACK", 149.5, 10.0), ("LAY", 159.5, 10.0)]),
    ):
        for bpe in (True, False):
            k += 1
            acts = []
            for i, (side, price, size) in enumerate(orders):
                a = {"op": "place", "o": "%s%d" % (tag, i), "t": "t%s%d" % (tag, i), "sel": 11, "side": side, "price": price, "size": size, "ladder": mdef["ladder"], "pers": "PERSIST"}
                if mdef["ladder"] == "LINE_RANGE":
                    a["line"] = [0.5, 300.5, 1.0]
                acts.append(a)
            ups = [{"pt": 1000 * j, "status": "OPEN", "version": 1, "rstat": {"11": ["ACTIVE", None, None], "12": ["ACTIVE", None, None]},
                    "books": {"11": _bk(atb, atl, []), "12": _bk([[5.0, 10.0]], [[5.5, 10.0]], [])}} for j in range(3)]
            m = dict({"id": "1.100000001", "event_id": "30000001", "market_type": "WIN", "winners": 1, "bsp": False, "persistence": True, "runners": [11, 12], "updates": ups}, **mdef)
            out.append({"id": "pg%s%d" % (tag, k), "cfg": {"bpe": bpe}, "markets": [m],
                        "strategies": [{"name": "A", "max_live_trade_count": 1000, "max_trade_count": 100000, "script": {"1.100000001|0|book": acts}}]})
    # the 0.0 line of a handicap market, listed after another line of the same selection: an order on it meets its own
    # line's book, not the first-listed line's
    for bpe in (True, False):
        k += 1
        runners = ["201@-0.5", 201, "201@0.5", 202]
        books = {"201@-0.5": _bk([[3.0, 8.0]], [[3.2, 8.0]], []), "201": _bk([[2.0, 2.0], [1.9, 5.0]], [[2.1, 3.0]], []),
                 "201@0.5": _bk([[1.5, 9.0]], [[1.6, 9.0]], []), "202": _bk([[4.0, 5.0]], [[4.4, 5.0]], [])}
        ups = [{"pt": 1000 * j, "status": "OPEN", "version": 1, "rstat": {str(r): ["ACTIVE", None, None] for r in runners}, "books": books} for j in range(3)]
        acts = []
        for i, (side, price, size) in enumerate([("BACK", 2.0, 6.0), ("BACK", 1.9, 6.0), ("BACK", 2.5, 4.0), ("LAY", 2.1, 6.0), ("LAY", 2.0, 3.0), ("LAY", 3.0, 6.0), ("BACK", 1.5, 10.0)]):
            acts.append({"op": "place", "o": "z%d" % i, "t": "tz%d" % i, "sel": 201, "hc": 0, "side": side, "price": price, "size": size, "pers": "PERSIST"})
        m = {"id": "1.100000001", "event_id": "30000001", "market_type": "ASIAN_HANDICAP", "betting_type": "ASIAN_HANDICAP_DOUBLE_LINE", "winners": 1, "bsp": False,
             "persistence": True, "runners": runners, "updates": ups}
        out.append({"id": "pgh%d" % k, "cfg": {"bpe": bpe}, "markets": [m],
                    "strategies": [{"name": "A", "max_live_trade_count": 1000, "max_trade_count": 100000, "script": {"1.100000001|0|book": acts}}]})
    return out


def family_handicap_lines(tier, seed):
    """handicap markets: the same selection id on several handicap lines which settle differently; orders on
    lines that are / are not the last one listed for their selection, both sides, fills on some"""
    import itertools
    out = []
    runners = ["201@-1.5", "201@-0.5", "201@0.5", "202@1.5", "202@0.5", "202@-0.5"]
    results = [
        {"201@-1.5": "LOSER", "201@-0.5": "WINNER", "201@0.5": "WINNER", "202@1.5": "WINNER", "202@0.5": "LOSER", "202@-0.5": "LOSER"},
        {"201@-1.5": "LOSER", "201@-0.5": "LOSER", "201@0.5": "LOSER", "202@1.5": "WINNER", "202@0.5": "WINNER", "202@-0.5": "WINNER"},
        {"201@-1.5": "WINNER", "201@-0.5": "WINNER", "201@0.5": "WINNER", "202@1.5": "LOSER", "202@0.5": "LOSER", "202@-0.5": "LOSER"},
    ]
    orders_of = [["201@-1.5", "201@-0.5", "202@1.5"], ["201@0.5", "202@0.5", "202@-0.5"], ["201@-1.5", "201@0.5", "202@1.5", "202@-0.5"]]
    k = 0
    for res, lines in itertools.product(results, orders_of if tier == "thorough" else orders_of[:2]):
        k += 1
        ups = []
        for j in range(3):
            ups.append({"pt": 1000 * j, "status": "OPEN", "version": 1, "rstat": {r: ["ACTIVE", None, None] for r in runners},
                        "books": {r: _bk([[2.0, 20.0]], [[2.1, 20.0]], [[2.0, 4.0 * j], [2.1, 4.0 * j]]) for r in runners}})
        ups.append({"pt": 4000, "status": "CLOSED", "version": 2, "rstat": {r: [res[r], None, None] for r in runners}, "books": {}})
        acts = []
        for i, r in enumerate(lines):
            sel, hc = r.split("@")
            for side, price in (("BACK", 2.0), ("LAY", 2.1)):
                acts.append({"op": "place", "o": "h%d%s" % (i, side[0]), "t": "th%d%s" % (i, side[0]), "sel": int(sel), "hc": float(hc), "side": side, "price": price, "size": 2.0 + i})
        m = {"id": "1.100000001", "event_id": "30000001", "market_type": "ASIAN_HANDICAP", "betting_type": "ASIAN_HANDICAP_DOUBLE_LINE",
             "winners": len([1 for r in runners if res[r] == "WINNER"]), "bsp": False,
             "persistence": True, "runners": runners, "updates": ups}
        out.append({"id": "hl%d" % k, "cfg": {}, "markets": [m],
                    "strategies": [{"name": "A", "max_live_trade_count": 1000, "script": {"1.100000001|0|book": acts}}]})
    return out


def family_failed_packages(tier, seed):
    """multi-order cancel / update / replace packages every instruction of which fails: the market suspends
    while the package is in flight (the simulated exchange refuses requests on a market that is not open)"""
    out = []
    k = 0
    for op in ("cancel", "update", "replace"):
        for n in ((2, 3) if tier == "quick" else (2, 3, 5)):
            for mixed in (False, True):
                k += 1
                def up(pt, status="OPEN", version=1):
                    return {"pt": pt, "status": status, "version": version, "rstat": {"11": ["ACTIVE", 50.0, None], "12": ["ACTIVE", 50.0, None]},
                            "books": {"11": _bk([[2.0, 20.0]], [[2.4, 20.0]], []), "12": _bk([[3.0, 10.0]], [[3.4, 10.0]], [])}}
                ups = [up(0), up(200), up(1000), up(1100, "SUSPENDED"), up(1300, "SUSPENDED"), up(2000), up(3000)]
                place = [{"op": "place", "o": "f%d" % i, "t": "tf%d" % i, "sel": 11, "side": "BACK", "price": 2.2 + 0.02 * i, "size": 2.0} for i in range(n)]
                acts = []
                for i in range(n):
                    a = {"op": op, "o": "f%d" % i}
                    if op == "update":
                        a["pers"] = "PERSIST"
                    if op == "replace":
                        a["price"] = 2.5
                    acts.append(a)
                script = {"1.100000001|0|book": place, "1.100000001|1000|book": [{"op": "txn", "actions": acts}]}
                if mixed:   # one of the orders is cancelled individually just before: its instruction in the package meets a complete order
                    script["1.100000001|200|book"] = [{"op": "cancel", "o": "f0"}]
                m = {"id": "1.100000001", "event_id": "30000001", "market_type": "WIN", "winners": 1, "bsp": True, "persistence": True, "runners": [11, 12], "updates": ups}
                out.append({"id": "fp%d" % k, "cfg": {"transaction_limit": 50}, "markets": [m],
                            "strategies": [{"name": "A", "max_live_trade_count": 1000, "script": script}]})
    return out


def family_early_result(tier, seed):
    """a runner is settled (LOSER / WINNER / HIDDEN) while the market is still OPEN or SUSPENDED, as in outright
    and tournament markets: that is not a removal - matched and resting bets on it keep their sizes"""
    out = []
    k = 0
    for early in (["LOSER"], ["WINNER"], ["HIDDEN"], ["LOSER", "LOSER"]):
        for status_at in ("OPEN", "SUSPENDED"):
            k += 1
            runners = [11, 12, 13]
            ups = []
            for j in range(7):
                rstat = {"11": ["ACTIVE", 30.0, None], "12": ["ACTIVE", 30.0, None], "13": ["ACTIVE", 30.0, None]}
                if j >= 3:
                    rstat["11"][0] = early[0]
                if j >= 4 and len(early) > 1:
                    rstat["12"][0] = early[1]
                books = {}
                for r in runners:
                    if rstat[str(r)][0] == "ACTIVE":
                        books[str(r)] = _bk([[2.0, 20.0]], [[2.2, 20.0]], [[2.1, 2.0 * j]])
                ups.append({"pt": 1000 * j, "status": status_at if j == 3 else "OPEN", "version": 1 + (1 if j >= 3 else 0), "rstat": rstat, "books": books})
            fin = {"11": early[0] if early[0] != "HIDDEN" else "LOSER", "12": early[1] if len(early) > 1 else "WINNER", "13": "LOSER" if len(early) == 1 else "WINNER"}
            ups.append({"pt": 8000, "status": "CLOSED", "version": 3, "rstat": {r: [st_, 30.0, None] for r, st_ in fin.items()}, "books": {}})
            acts = []
            for r in runners:
                acts += [{"op": "place", "o": "e%dm" % r, "t": "te%dm" % r, "sel": r, "side": "BACK", "price": 2.0, "size": 4.0},     # matched at once
                         {"op": "place", "o": "e%dr" % r, "t": "te%dr" % r, "sel": r, "side": "BACK", "price": 2.1, "size": 6.0, "pers": "PERSIST"},  # rests, fills partly
                         {"op": "place", "o": "e%dl" % r, "t": "te%dl" % r, "sel": r, "side": "LAY", "price": 1.8, "size": 3.0, "pers": "PERSIST"}]   # rests unmatched
            m = {"id": "1.100000001", "event_id": "30000001", "market_type": "WIN", "winners": 1 if len(early) == 1 else 2, "bsp": False, "persistence": True, "runners": runners, "updates": ups}
            out.append({"id": "er%d" % k, "cfg": {}, "markets": [m], "strategies": [{"name": "A", "max_live_trade_count": 1000, "script": {"1.100000001|0|book": acts}}]})
    return out


def family_package_voided(tier, seed):
    """a placement package of several orders one of which completes while the package is in flight: its runner
    is removed (market still open) before the latency has passed, so the pending order is voided and completed;
    the other orders - plain, fill-or-kill, different runners, either position in the package - must still be
    placed with their own instruction"""
    out = []
    k = 0
    for first_removed in (True, False):
        for second in ("fok_short", "fok_ok", "plain", "sp"):
            for inplay in (False, True):
                k += 1
                def up(pt, removed, version, trd=0.0):
                    rs = {"11": ["REMOVED" if removed else "ACTIVE", 20.0, None], "12": ["ACTIVE", 40.0, None], "13": ["ACTIVE", 40.0, None]}
                    books = {"12": _bk([[5.0, 2.0], [4.8, 10.0]], [[5.2, 10.0]], [[5.0, trd]]), "13": _bk([[3.0, 10.0]], [[3.2, 10.0]], [])}
                    if not removed:
                        books["11"] = _bk([[2.0, 10.0]], [[2.2, 10.0]], [])
                    return {"pt": pt, "status": "OPEN", "version": version, "inplay": inplay, "bet_delay": 1 if inplay else 0, "rstat": rs, "books": books}
                lat = 1120 if inplay else 120
                ups = [up(0, False, 1), up(lat - 20, True, 2), up(lat + 80, True, 2), up(lat + 2000, True, 2, 40.0), up(lat + 3000, True, 2, 40.0)]
                a1 = {"op": "place", "o": "v1", "t": "tv1", "sel": 11, "side": "BACK", "price": 2.2, "size": 2.0}
                if second == "sp":
                    a2 = {"op": "place", "o": "v2", "t": "tv2", "sel": 12, "side": "BACK", "type": "LIMIT_ON_CLOSE", "price": 1.5, "size": 10.0}
                else:
                    a2 = {"op": "place", "o": "v2", "t": "tv2", "sel": 12, "side": "BACK", "price": 5.0, "size": {"fok_short": 10.0, "fok_ok": 2.0, "plain": 10.0}[second]}
                    if second.startswith("fok"):
                        a2["tif"] = "FILL_OR_KILL"
                a3 = {"op": "place", "o": "v3", "t": "tv3", "sel": 13, "side": "LAY", "price": 3.2, "size": 3.0}
                acts = [a1, a2, a3] if first_removed else [a2, a1, a3]
                m = {"id": "1.100000001", "event_id": "30000001", "market_type": "WIN", "winners": 1, "bsp": True, "persistence": True, "runners": [11, 12, 13], "updates": ups}
                out.append({"id": "pv%d" % k, "cfg": {}, "markets": [m],
                            "strategies": [{"name": "A", "max_live_trade_count": 1000, "script": {"1.100000001|0|book": [{"op": "txn", "actions": acts}]}}]})
    return out


def family_removal_variants(tier, seed):
    """removals the random generator reaches rarely: small factors (below the 2.5 threshold) with market-on-close
    lay orders on the other runners, win and place markets; a market that closes and is re-opened while the runner
    is still listed as removed (the removal must not be applied a second time); a second removal after that"""
    out = []
    k = 0
    for mtype, winners in (("WIN", 1), ("PLACE", 2), ("OTHER_PLACE", 2)):
        for af in (None, 0.0, 1.0, 2.4, 2.5, 20.0):
            for reopen in (False, True):
                k += 1
                def up(pt, removed, version, status="OPEN", trd=0.0, removed2=False):
                    rs = {"11": ["REMOVED" if removed else "ACTIVE", af, None], "12": ["ACTIVE", 30.0, None], "13": ["ACTIVE", 30.0, None], "14": ["REMOVED" if removed2 else "ACTIVE", 5.0, None]}
                    books = {}
                    for r in ("11", "12", "13", "14"):
                        if rs[r][0] == "ACTIVE":
                            books[r] = _bk([[4.0, 20.0]], [[4.2, 20.0]], [[4.1, trd]])
                    return {"pt": pt, "status": status, "version": version, "rstat": rs, "books": books}
                ups = [up(0, False, 1), up(1000, False, 1, trd=4.0), up(2000, True, 2, trd=4.0), up(3000, True, 2, trd=8.0)]
                if reopen:
                    closed = {"pt": 4000, "status": "CLOSED", "version": 3, "rstat": {"11": ["REMOVED", af, None], "12": ["WINNER", 30.0, None], "13": ["LOSER" if winners == 1 else "WINNER", 30.0, None], "14": ["LOSER", 5.0, None]}, "books": {}, "force_md": True}
                    ups += [closed, up(5000, True, 4, status="SUSPENDED", trd=8.0), up(6000, True, 5, trd=8.0), up(7000, True, 6, trd=12.0, removed2=True), up(8000, True, 6, trd=12.0, removed2=True)]
                acts = [{"op": "place", "o": "r1", "t": "tr1", "sel": 12, "side": "BACK", "price": 4.0, "size": 5.0},                     # matched at once on another runner
                        {"op": "place", "o": "r2", "t": "tr2", "sel": 12, "side": "LAY", "type": "MARKET_ON_CLOSE", "size": 30.0},       # SP lay liability on another runner
                        {"op": "place", "o": "r3", "t": "tr3", "sel": 13, "side": "LAY", "type": "MARKET_ON_CLOSE", "size": 12.5},
                        {"op": "place", "o": "r4", "t": "tr4", "sel": 11, "side": "BACK", "price": 4.0, "size": 3.0},                     # on the runner that goes
                        {"op": "place", "o": "r5", "t": "tr5", "sel": 13, "side": "BACK", "price": 4.1, "size": 6.0, "pers": "PERSIST"},  # rests, fills partly
                        {"op": "place", "o": "r6", "t": "tr6", "sel": 11, "side": "LAY", "type": "MARKET_ON_CLOSE", "size": 15.0},         # SP lay on the runner that goes first
                        {"op": "place", "o": "r7", "t": "tr7", "sel": 14, "side": "BACK", "price": 4.0, "size": 2.0},                     # on the runner that goes second
                        {"op": "place", "o": "r8", "t": "tr8", "sel": 14, "side": "LAY", "price": 3.5, "size": 2.0, "pers": "PERSIST"}]   # resting on it
                m = {"id": "1.100000001", "event_id": "30000001", "market_type": mtype, "winners": winners, "bsp": True, "persistence": True, "runners": [11, 12, 13, 14], "updates": ups}
                out.append({"id": "rv%d" % k, "cfg": {}, "markets": [m], "strategies": [{"name": "A", "max_live_trade_count": 1000, "script": {"1.100000001|0|book": acts}}]})
    return out


def family_sp_conversion(tier, seed):
    """limit orders with MARKET_ON_CLOSE persistence carried to the starting price after every kind of earlier
    bookkeeping: untouched, partly matched by trades, partly cancelled (the cancel executed before the off), both,
    fully matched before the off; BACK and LAY; starting price above / below / at the limit"""
    out = []
    k = 0
    for side in ("BACK", "LAY"):
        for pre in ("none", "fill", "cancel", "fill+cancel", "full"):
            for sp in (2.1, 3.0, 4.5):
                k += 1
                price = 3.0
                def up(pt, trd=0.0, status="OPEN", inplay=False, rec=False, version=1):
                    rs = {"11": ["ACTIVE", 50.0, sp if rec else None], "12": ["ACTIVE", 50.0, 3.2 if rec else None]}
                    # the order rests: BACK asks more than is bid, LAY bids less than is asked
                    book11 = _bk([[2.5, 50.0]], [[3.5, 50.0]], [[price, trd]])
                    return {"pt": pt, "status": status, "version": version, "inplay": inplay, "bsp_rec": rec, "bet_delay": 1 if inplay else 0,
                            "rstat": rs, "books": {"11": book11, "12": _bk([[3.0, 10.0]], [[3.4, 10.0]], [])}}
                fills = {"none": 0.0, "fill": 4.0, "cancel": 0.0, "fill+cancel": 4.0, "full": 40.0}[pre]      # reported volume (both sides)
                ups = [up(0), up(1000), up(2000, trd=fills), up(3000, trd=fills), up(4000, trd=fills),
                       up(5000, trd=fills, status="SUSPENDED", version=2), up(6000, trd=fills, inplay=True, rec=True, version=3), up(7000, trd=fills, inplay=True, rec=True, version=3)]
                script = {"1.100000001|0|book": [{"op": "place", "o": "s1", "t": "ts1", "sel": 11, "side": side, "price": price, "size": 10.0, "pers": "MARKET_ON_CLOSE"}]}
                if "cancel" in pre:
                    script["1.100000001|3000|book"] = [{"op": "cancel", "o": "s1", "reduction": 4.0}]
                m = {"id": "1.100000001", "event_id": "30000001", "market_type": "WIN", "winners": 1, "bsp": True, "persistence": True, "runners": [11, 12], "updates": ups}
                out.append({"id": "spc%d" % k, "cfg": {}, "markets": [m], "strategies": [{"name": "A", "max_live_trade_count": 10, "script": script}]})
    return out


def family_bucket_corners(tier, seed):
    """corners of the size bookkeeping the random scenarios hit only by chance: full-match clients with fill-or-kill
    orders that are killed / partly filled; a replace (or cancel) in flight followed in the same callback by a partial
    cancel that is refused; both sides"""
    out = []
    k = 0
    for side in ("BACK", "LAY"):
        same = [[3.0, 4.0], [2.8, 10.0]] if side == "BACK" else [[3.0, 4.0], [3.2, 10.0]]
        atb, atl = (same, [[3.4, 10.0]]) if side == "BACK" else ([[2.6, 10.0]], same)
        def ups():
            return [{"pt": 1000 * j, "status": "OPEN", "version": 1, "rstat": {"11": ["ACTIVE", 50.0, None], "12": ["ACTIVE", 50.0, None]},
                     "books": {"11": _bk(atb, atl, [[3.0, 4.0 * j]]), "12": _bk([[5.0, 10.0]], [[5.5, 10.0]], [])}} for j in range(6)]
        # (a) full-match client
        k += 1
        acts = [{"op": "place", "o": "a%d" % i, "t": "ta%d" % i, "sel": 11, "side": side, "price": price, "size": size, "tif": "FILL_OR_KILL", **({"min_fill": mf} if mf else {})}
                for i, (price, size, mf) in enumerate([(3.0, 10.0, None), (3.0, 10.0, 2.0), (3.0, 4.0, None), (2.9 if side == "BACK" else 3.1, 10.0, 5.0),
                                                        (3.3 if side == "BACK" else 2.7, 6.0, None), (3.0, 2.0, None)])]
        acts.append({"op": "place", "o": "plain", "t": "tplain", "sel": 11, "side": side, "price": 3.0, "size": 10.0})
        m = {"id": "1.100000001", "event_id": "30000001", "market_type": "WIN", "winners": 1, "bsp": True, "persistence": True, "runners": [11, 12], "updates": ups()}
        out.append({"id": "bc%d" % k, "cfg": {"full_match": True}, "markets": [m], "strategies": [{"name": "A", "max_live_trade_count": 1000, "script": {"1.100000001|0|book": acts}}]})
        # (b) an operation in flight, then a partial cancel that is refused, in one callback
        for first in ("replace", "cancel", "update"):
            k += 1
            rest_price = 3.3 if side == "BACK" else 2.7        # rests
            a0 = {"replace": {"op": "replace", "o": "r1", "price": 3.35 if side == "BACK" else 2.65}, "cancel": {"op": "cancel", "o": "r1"},
                  "update": {"op": "update", "o": "r1", "pers": "PERSIST"}}[first]
            script = {"1.100000001|0|book": [{"op": "place", "o": "r1", "t": "tr1", "sel": 11, "side": side, "price": rest_price, "size": 10.0}],
                      "1.100000001|2000|book": [a0, {"op": "cancel", "o": "r1", "reduction": 4.0}]}
            m = {"id": "1.100000001", "event_id": "30000001", "market_type": "WIN", "winners": 1, "bsp": True, "persistence": True, "runners": [11, 12], "updates": ups()}
            out.append({"id": "bc%d" % k, "cfg": {}, "markets": [m], "strategies": [{"name": "A", "max_live_trade_count": 1000, "script": script}]})
    return out


def family_inflight_fill(tier, seed):
    """a resting order has a cancel / update / replace in flight when volume trades at its price, before the request's
    latency has passed: it is still in the book and is filled like any resting order (whole or part), then the response
    meets an order that has changed"""
    out = []
    k = 0
    for side in ("BACK", "LAY"):
        for op in ("cancel", "cancel_part", "update", "replace"):
            for vol in (4.0, 40.0):       # part / all of the order
                for inplay in (False, True):
                    k += 1
                    price = 3.0
                    def up(pt, trd):
                        atb, atl = ([[2.8, 10.0]], [[3.4, 10.0]])
                        return {"pt": pt, "status": "OPEN", "version": 1, "inplay": inplay, "bet_delay": 2 if inplay else 0,
                                "rstat": {"11": ["ACTIVE", 50.0, None], "12": ["ACTIVE", 50.0, None]},
                                "books": {"11": _bk(atb, atl, [[price, trd]]), "12": _bk([[5.0, 10.0]], [[5.5, 10.0]], [])}}
                    t1 = 4000
                    ups = [up(0, 0.0), up(3000, 0.0), up(t1, 0.0), up(t1 + 100, vol), up(t1 + 150, vol), up(t1 + 1000, vol), up(t1 + 4000, vol), up(t1 + 5000, vol)]
                    a = {"cancel": {"op": "cancel", "o": "q1"}, "cancel_part": {"op": "cancel", "o": "q1", "reduction": 3.0},
                         "update": {"op": "update", "o": "q1", "pers": "PERSIST"}, "replace": {"op": "replace", "o": "q1", "price": 3.1 if side == "BACK" else 2.9}}[op]
                    script = {"1.100000001|0|book": [{"op": "place", "o": "q1", "t": "tq1", "sel": 11, "side": side, "price": price, "size": 10.0}],
                              "1.100000001|%d|book" % t1: [a]}
                    m = {"id": "1.100000001", "event_id": "30000001", "market_type": "WIN", "winners": 1, "bsp": True, "persistence": True, "runners": [11, 12], "updates": ups}
                    out.append({"id": "if%d" % k, "cfg": {}, "markets": [m], "strategies": [{"name": "A", "max_live_trade_count": 1000, "script": script}]})
    return out


def family_cross_market(tier, seed):
    """one recorded file carrying two markets of an event (every message re-delivers the last book of the market
    it does not update, with that book's old publish time, so the clock steps back); while it is shown a book of
    one market the strategy sends requests for the other one.  The request waits for an update of ITS market
    that lies more than the latency after the request."""
    out = []
    k = 0

    def up(pt, sel_a, sel_b, trd=0.0, inplay=False):
        return {"pt": pt, "status": "OPEN", "version": 1, "inplay": inplay, "bet_delay": 1 if inplay else 0,
                "rstat": {str(sel_a): ["ACTIVE", 50.0, None], str(sel_b): ["ACTIVE", 50.0, None]},
                "books": {str(sel_a): _bk([[2.8, 10.0]], [[3.0, 10.0]], [[3.0, trd]] if trd else []), str(sel_b): _bk([[5.0, 10.0]], [[5.5, 10.0]], [])}}

    for first in ("X", "Y"):                       # which market the file starts with (= is re-delivered first)
        for gap in (50, 400, 2000):                # next update of the target market after the request
            for op in ("place", "place_through", "cancel", "replace"):
                for inplay in (False, True):
                    k += 1
                    X, Y = "1.100000001", "1.100000002"
                    tx = [0, 1000, 3000, 3000 + gap + 100, 9000]         # X: the strategy acts on X's book at 3000
                    ty = [10, 1500, 3000 + gap, 8000, 9500] if first == "X" else [-10 + 20, 1500, 3000 + gap, 8000, 9500]
                    if first == "Y":
                        tx = [t + 20 for t in tx]
                    mx = {"id": X, "event_id": "30000001", "market_type": "WIN", "winners": 1, "bsp": True, "persistence": True, "runners": [11, 12],
                          "updates": [up(t, 11, 12, inplay=inplay) for t in tx]}
                    my = {"id": Y, "event_id": "30000001", "market_type": "WIN", "winners": 1, "bsp": True, "persistence": True, "runners": [21, 22],
                          "updates": [up(t, 21, 22, trd=(4.0 if i >= 3 else 0.0), inplay=inplay) for i, t in enumerate(ty)]}
                    t_act = tx[2]
                    script = {}
                    if op in ("place", "place_through"):
                        script["%s|%d|book" % (X, t_act)] = [{"op": "place", "on": Y, "o": "h1", "t": "th1", "sel": 21, "side": "BACK" if op == "place" else "LAY",
                                                             "price": 3.0, "size": 4.0}]
                    else:
                        # the order rests on Y since Y's first book; the request for it is sent while X is processed
                        script["%s|%d|book" % (Y, ty[0])] = [{"op": "place", "o": "h1", "t": "th1", "sel": 21, "side": "BACK", "price": 3.0, "size": 4.0}]
                        script["%s|%d|book" % (X, t_act)] = [{"op": "cancel", "on": Y, "o": "h1"} if op == "cancel" else {"op": "replace", "on": Y, "o": "h1", "price": 3.1}]
                    markets = [mx, my] if first == "X" else [my, mx]
                    out.append({"id": "xm%d" % k, "cfg": {}, "shared_file": True, "markets": markets,
                                "strategies": [{"name": "A", "max_live_trade_count": 1000, "markets": [0], "script": script}]})
    return out


def family_repeated_cancel(tier, seed):
    """an order is reduced more than once and finally cancelled or replaced, each request on a later update: every response
    of the simulated exchange carries the time of its own execution"""
    out = []
    k = 0
    for side in ("BACK", "LAY"):
        for last in ("cancel", "replace", "cancel_part"):
            for inplay in (False, True):
                k += 1
                price = 3.2 if side == "BACK" else 2.6
                def up(pt):
                    return {"pt": pt, "status": "OPEN", "version": 1, "inplay": inplay, "bet_delay": 1 if inplay else 0,
                            "rstat": {"11": ["ACTIVE", 50.0, None], "12": ["ACTIVE", 50.0, None]},
                            "books": {"11": _bk([[2.8, 10.0]], [[3.0, 10.0]], []), "12": _bk([[5.0, 10.0]], [[5.5, 10.0]], [])}}
                ts = [0, 2000, 5000, 7000, 10000, 12000, 15000, 17000, 20000]
                a3 = {"cancel": {"op": "cancel", "o": "q1"}, "cancel_part": {"op": "cancel", "o": "q1", "reduction": 1.0},
                      "replace": {"op": "replace", "o": "q1", "price": 3.4 if side == "BACK" else 2.4}}[last]
                script = {"1.100000001|0|book": [{"op": "place", "o": "q1", "t": "tq1", "sel": 11, "side": side, "price": price, "size": 10.0}],
                          "1.100000001|5000|book": [{"op": "cancel", "o": "q1", "reduction": 2.0}],
                          "1.100000001|10000|book": [{"op": "cancel", "o": "q1", "reduction": 3.0}],
                          "1.100000001|15000|book": [a3]}
                m = {"id": "1.100000001", "event_id": "30000001", "market_type": "WIN", "winners": 1, "bsp": True, "persistence": True, "runners": [11, 12], "updates": [up(t) for t in ts]}
                out.append({"id": "rc%d" % k, "cfg": {}, "markets": [m], "strategies": [{"name": "A", "max_live_trade_count": 1000, "script": script}]})
    return out
