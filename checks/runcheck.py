"""Checks on whole-run summaries: C13 (isolation, error containment) and C14 (determinism,
completeness, chronology).  The verdict formulas live in spec/RunTrace.tla (EventMerge.tla)."""
import os
import sys
import json
import time
import copy
import shutil
import subprocess
import collections

ROOT = os.path.dirname(os.path.dirname(os.path.abspath(__file__)))
sys.path.insert(0, ROOT)

from harness import tlc, evidence, findings  # noqa: E402
from harness.gen_sim import Gen  # noqa: E402
from harness.simdrv import run_scenario, strip, ms_of, T0  # noqa: E402
from harness.ledger import ledger_of  # noqa: E402
from checks.simcheck import run_design, summarize_activity  # noqa: E402

MARKET_TIME = "2023-11-14T22:14:20.000Z"   # T0 + 60 s
MTIME_MS = 60000


# ----------------------------------------------------------------------------------------
def merge_case(scn, tr):
    rec = tr["rec"]
    L = scn["cfg"].get("listener_kwargs", {})
    groups = collections.OrderedDict()
    for st in rec.flumine.streams:
        mid = os.path.basename(st.market_filter)
        groups.setdefault(st.event_group, []).append(mid)
    glist = [{"group": str(g) if g else "", "streams": mids} for g, mids in groups.items()]
    lines = {}
    for m in scn["markets"]:
        lines[m["id"]] = []
        mt = MTIME_MS
        for u in m["updates"]:
            if u.get("market_time_ms") is not None:       # the market is re-timed from this update on
                mt = u["market_time_ms"]
            lines[m["id"]].append({"pt": u["pt"], "status": u.get("status", "OPEN"), "inplay": bool(u.get("inplay", False)), "mtime": mt})
    delivered = [[s["a"]["mid"], s["a"]["pt"]] for s in tr["steps"] if s["ev"] == "upd"]
    clocks = [[d[2], d[3]] for d in tr["delivered"]]
    return {"kind": "merge", "id": scn["id"], "groups": glist, "lines": lines,
            "L": {"inplay": {None: "NONE", True: "TRUE", False: "FALSE"}[L.get("inplay")], "sts": int(L["seconds_to_start"] * 1000) if L.get("seconds_to_start") else -1,
                  "maxinplay": int(L["max_inplay_seconds"] * 1000) if L.get("max_inplay_seconds") is not None else -1},
            "delivered": delivered, "clocks": clocks}


def gen_c14(seed, n, tier):
    out = []
    for i in range(n):
        rnd_prof = {
            "n_markets": (1, 3), "n_updates": (3, 9), "p_inplay": 0.3, "p_close": 0.7, "p_suspend": 0.1,
            "gaps": [0, 0, 1, 500, 1000, 1000, 5000, 20000],
            "event_processing": (i % 2 == 0),
        }
        if i % 5 == 4:
            # an event of four or five markets with unequal update densities (the merge front holds more than three streams)
            rnd_prof.update({"n_markets": (4, 5), "n_updates": (2, 12), "event_processing": True, "gaps": [0, 1, 200, 500, 1000, 3000, 7000, 20000]})
        g = Gen(seed * 7919 + i, rnd_prof)
        scn = g.scenario("m%d" % i)
        rnd = g.rnd
        for m in scn["markets"]:
            m["market_time"] = MARKET_TIME
            if rnd.random() < 0.4:  # markets of different events
                m["event_id"] = rnd.choice(["30000001", "30000002"])
        lk = {}
        x = rnd.random()
        if x < 0.2:
            lk["inplay"] = True
        elif x < 0.35:
            lk["inplay"] = False
        elif x < 0.55:
            lk["seconds_to_start"] = rnd.choice([10.0, 50.0, 59.0, 58.5])
        if rnd.random() < 0.25:
            lk["max_inplay_seconds"] = rnd.choice([0, 1, 5, 30])
        if lk.get("seconds_to_start") and rnd.random() < 0.6:
            # the start is brought forward / put back while the market trades (a later marketDefinition re-times it)
            m = rnd.choice(scn["markets"])
            if len(m["updates"]) > 2:
                kk = rnd.randrange(1, len(m["updates"]))
                new_ms = MTIME_MS + rnd.choice([-50000, -30000, -10000, 20000, 100000])
                import datetime as _dtm
                iso = (_dtm.datetime.utcfromtimestamp((T0 + new_ms) / 1000.0)).strftime("%Y-%m-%dT%H:%M:%S.") + "%03dZ" % (new_ms % 1000)
                for u in m["updates"][kk:]:
                    u["market_time"] = iso
                m["updates"][kk]["market_time_ms"] = new_ms
        if i < 6 and i % 2 == 1 and not lk:      # the scenarios re-run in fresh processes include the start-time filter
            lk["seconds_to_start"] = 50.0
        scn["cfg"]["listener_kwargs"] = lk
        if scn["cfg"]["event_processing"] and rnd.random() < 0.3:
            scn["cfg"]["event_groups"] = {"30000001": "G", "30000002": "G"}
        out.append(scn)
    return out


def run_sub(scn_path, hashseed, offset, tz=None, step=0):
    env = dict(os.environ)
    env["PYTHONHASHSEED"] = str(hashseed)
    env["VERIF_CLOCK_OFFSET_S"] = str(offset)
    env["VERIF_CLOCK_STEP_S"] = str(step)
    if tz:
        env["TZ"] = tz          # the process's local time zone must not matter either
    p = subprocess.run([sys.executable, "-m", "harness.run_one", scn_path], cwd=ROOT, env=env, stdout=subprocess.PIPE, stderr=subprocess.PIPE, text=True, timeout=300)
    last = [l for l in p.stdout.splitlines() if l.startswith("{")]
    if not last:
        raise RuntimeError("run_one failed: %s" % p.stderr[-800:])
    return json.loads(last[-1])


def check_c14(tier, seed):
    t0 = time.time()
    designs = [
        {"module": "MC_EventMerge", "constants": {"Names": '{"s1", "s2", "s3"}', "Times": "{1, 2, 3}", "N": "3", "Mode": '"merge"'},
         "invariants": ["Inv_MergeSorted", "Inv_PerMarketOrderKeptExactlyOnce", "Inv_Count"]},
        # four streams (the merge front holds more entries than a three-slot insertion can place)
        {"module": "MC_EventMerge", "constants": {"Names": '{"s1", "s2", "s3", "s4"}', "Times": "{1, 2, 3}", "N": "2", "Mode": '"merge"'},
         "invariants": ["Inv_MergeSorted", "Inv_PerMarketOrderKeptExactlyOnce", "Inv_Count"]},
        {"module": "MC_EventMerge", "constants": {"Names": '{"s1"}', "Times": "{1, 2, 3}", "N": "3", "Mode": '"filter"'},
         "invariants": ["Inv_FilterSubsequence", "Inv_NoFilterDeliversAll", "Inv_ClosedAlwaysDelivered"]},
    ]
    design = run_design(designs, tier)
    if design.get("failed"):
        print("SPEC-ERROR property=C14 %s" % json.dumps(design["failed"])[:3000])
        return 2
    n = 120 if tier == "quick" else 2500
    ndet = 6 if tier == "quick" else 60
    scns = gen_c14(seed, n, tier)
    cases, samples = [], []
    wd = tlc.workdir("c14")
    try:
        for i, scn in enumerate(scns):
            tr = run_scenario(scn, snapshots=False)
            cases.append(merge_case(scn, tr))
            if i < ndet:
                sp = os.path.join(wd, "scn_%d.json" % i)
                with open(sp, "w") as f:
                    json.dump(scn, f)
                runs = [{"ledger": ledger_of(tr), "restored": tr["dt_restored"]}]
                runs.append(run_sub(sp, 1, 0, tz="EST5"))
                runs.append(run_sub(sp, 4242, 86400 * 400 + 3333, tz="JST-9"))
                # aborted run: raise_errors with an injected exception in the first callback
                s2 = copy.deepcopy(scn)
                s2["cfg"]["raise_errors"] = True
                for mk in s2["markets"]:   # whichever update is delivered first aborts the run
                    for u in mk["updates"]:
                        s2["strategies"][0].setdefault("raise", {})["%s|%d|check" % (mk["id"], u["pt"])] = "rt"
                import datetime as _dt
                before = _dt.datetime
                tr2 = run_scenario(s2, snapshots=False)
                cases.append({"kind": "det", "id": scn["id"] + "_det", "runs": [r["ledger"] for r in runs], "restored": [bool(r["restored"]) for r in runs],
                              "restored_exc": bool(_dt.datetime is before)})
                if i == 0:
                    samples.append({"scenario": scn["id"], "orders": len(runs[0]["ledger"]), "ledger_head": runs[0]["ledger"][:2], "hashseeds": [os.environ.get("PYTHONHASHSEED"), 1, 4242], "aborted_run_error": tr2["error"]})
        # state kept across markets and hours on the framework's clock (the hourly transaction count of a client with a
        # limit): the same run under a wall clock that is shifted, and under one that runs fast (twenty minutes per reading)
        for i in range(6 if tier == "quick" else 60):
            if i % 2 == 0:
                g = Gen(seed * 92821 + i, {"p_txlimit": 1.0, "n_markets": (2, 3), "market_starts": [100000, 3700000, 7300000], "gaps": [100, 1000, 60000, 600000], "p_action": 0.9,
                                           "max_orders": 12, "n_updates": (5, 10)})
                scn = g.scenario("dt%d" % i)
                scn["cfg"]["transaction_limit"] = g.rnd.choice([1, 2, 3, 5])
            else:
                # cool-downs between placements on a runner (place_reset_seconds / reset_seconds of a trade) and trade-count limits
                g = Gen(seed * 92821 + i, {"p_cooldown": 1.0, "p_limits": 0.5, "p_multi_trade": 0.4, "gaps": [40, 100, 120, 1000, 5000], "p_action": 0.9, "max_orders": 12,
                                           "n_updates": (6, 12), "p_cancel": 0.15, "p_replace": 0.1})
                scn = g.scenario("dt%d" % i)
            sp = os.path.join(wd, "scn_dt_%d.json" % i)
            with open(sp, "w") as f:
                json.dump(scn, f)
            tr = run_scenario(scn, snapshots=False)
            runs = [{"ledger": ledger_of(tr), "restored": tr["dt_restored"]}, run_sub(sp, 1, 0, step=1200), run_sub(sp, 7, 1800, tz="JST-9")]
            cases.append({"kind": "det", "id": scn["id"] + "_det", "runs": [r["ledger"] for r in runs], "restored": [bool(r["restored"]) for r in runs], "restored_exc": True})
        # files carrying several markets: every update re-emits the last book of every active market of the file,
        # each with its own publish time; the clock must follow each book it is processing
        for i in range(10 if tier == "quick" else 100):
            g = Gen(seed * 104723 + i, {"n_markets": (2, 3), "n_updates": (3, 8), "p_close": 0.5, "gaps": [1, 500, 1000, 5000, 20000], "event_processing": False, "p_action": 0.0})
            scn = g.scenario("sf%d" % i)
            scn["shared_file"] = True
            for st_ in scn["strategies"]:
                st_["markets"] = [0]
            tr = run_scenario(scn, snapshots=False)
            cases.append({"kind": "clock", "id": scn["id"], "clocks": [[d[2], d[3]] for d in tr["delivered"]], "error": tr["error"],
                          "markets_seen": sorted(set(d[1] for d in tr["delivered"])), "markets": sorted(m["id"] for m in scn["markets"])})
        samples.append({k: (v if k != "lines" else {m: len(x) for m, x in v.items()}) for k, v in cases[0].items() if k != "clocks"})
        res = validate_cases(cases, ["C14"], wd)
    finally:
        shutil.rmtree(wd, ignore_errors=True)
    return finish("C14", tier, seed, design, cases, res, samples, t0,
                  rule="k-way merge / listener filter specification (EventMerge.tla) applied to the generated input files predicts the delivered sequence; ledgers of 3 runs per scenario (in-process, two fresh subprocesses with different PYTHONHASHSEED and a 400-day clock offset) compared; distinct = distinct (groups, delivered) pairs",
                  assumptions=["<= 3 markets per run, <= 10 updates each", "wall-clock offset is produced by shifting datetime.datetime.utcnow in the subprocess before flumine is imported"])


# ----------------------------------------------------------------------------------------
class RaisingMiddleware:
    def __init__(self, keys):
        self.keys = set(keys)

    def __call__(self, market):
        k = "%s|%d" % (market.market_id, ms_of(market.market_book.publish_time_epoch))
        if k in self.keys:
            raise RuntimeError("injected middleware error")

    def add_market(self, market):
        pass

    def remove_market(self, market):
        pass


def inject_case(scn, tr):
    rec = tr["rec"]
    events = []
    expected = []
    seen_mkts = set()
    sub = {}
    for st in rec.flumine.strategies:
        sub[st.name] = set(os.path.basename(s.market_filter) for s in st.streams)
    order = [st.name for st in rec.flumine.strategies]
    raises = {st["name"]: st.get("raise", {}) for st in scn["strategies"]}
    for s in tr["steps"]:
        if s["ev"] in ("upd", "mw", "cb"):
            events.append([s["ev"], s["a"]["mid"], s["a"]["pt"] if "pt" in s["a"] else s["a"].get("book", {}).get("pt", -1)])
        if s["ev"] == "upd" and s["a"]["status"] != "CLOSED":
            mid, pt = s["a"]["mid"], s["a"]["pt"]
            new = mid not in seen_mkts
            seen_mkts.add(mid)
            for name in order:
                if mid in sub[name]:
                    if new:
                        expected.append([name, mid, pt, "new"])
                    expected.append([name, mid, pt, "check"])
                    if "%s|%d|check" % (mid, pt) not in raises.get(name, {}):
                        expected.append([name, mid, pt, "book"])
    delivered = [[d[0], d[1], d[2], d[4]] for d in tr["delivered"] if d[4] in ("new", "check", "book")]
    return {"kind": "inject", "id": scn["id"], "expected": expected, "delivered": delivered, "events": events, "error": tr["error"]}


def contain_cases(tier):
    """error containment in the handlers that only exist outside simulation: raw-data, sports-data and
    custom-event callbacks of a real (live-mode) framework instance.  An exception is injected at every
    callback invocation (strategy x event x datum x callback kind x exception type); the handler must not
    let it escape and every other callback must still happen exactly once."""
    from unittest import mock
    import flumine as fl_mod
    from flumine import Flumine, BaseStrategy, clients, config as fconfig
    from flumine.events import events as fev
    from flumine.exceptions import FlumineException

    STREAM = 1000
    EVENTS = [
        ("raw", [{"id": "1.100", "rc": [{"id": 11, "ltp": 2.0}]}]),
        ("raw", [{"id": "1.100", "marketDefinition": {"status": "OPEN", "runners": []}}]),
        ("raw", [{"marketId": "1.100", "eventId": "30000001", "score": 1}]),                  # cricket style datum: no "id"
        ("raw", [{"id": "1.101", "rc": []}, {"eventId": "30000002", "marketId": "1.101"}]),    # two data in one event
        ("sports", "1.100"),
        ("custom", None),
        ("raw", [{"id": "1.100", "rc": [{"id": 11, "ltp": 2.2}]}]),
    ]

    class S(BaseStrategy):
        def __init__(self, name, log, inj, stream_id):
            super().__init__(market_filter={}, name=name)
            self.log, self.inj, self._sid = log, inj, stream_id

        @property
        def stream_ids(self):
            return [self._sid]

        def _hit(self, kind):
            key = (self.name, self.log["ev"], self.log["datum"], kind)
            self.log["delivered"].append([self.name, self.log["ev"], self.log["datum"], kind])
            if self.inj and self.inj[:4] == key:
                raise (RuntimeError("injected") if self.inj[4] == "rt" else FlumineException("injected"))

        def process_raw_data(self, clk, publish_time, datum):
            self.log["datum"] = self.log["data"].index(datum) if datum in self.log["data"] else -1
            self._hit("raw")

        def check_sports_data(self, market, sports_data):
            self.log["datum"] = 0
            self._hit("checksports")
            return True

        def process_sports_data(self, market, sports_data):
            self.log["datum"] = 0
            self._hit("sports")

    def expected_for(names, inj):
        exp = []
        for ei, (kind, payload) in enumerate(EVENTS):
            if kind == "raw":
                for di in range(len(payload)):
                    for n in names:
                        exp.append([n, ei, di, "raw"])
            elif kind == "sports":
                for n in names:
                    exp.append([n, ei, 0, "checksports"])
                    if not (inj and inj[:4] == (n, ei, 0, "checksports")):
                        exp.append([n, ei, 0, "sports"])
            else:
                exp.append(["-", ei, 0, "custom"])
        return exp

    def run(inj, order):
        log = {"delivered": [], "ev": -1, "datum": -1, "data": []}
        bc = mock.Mock()
        bc.lightweight = False
        saved = fconfig.raise_errors
        fconfig.raise_errors = False
        escaped = []
        try:
            framework = Flumine(client=clients.BetfairClient(bc))
            strategies = [S(n, log, inj, STREAM) for n in order] + [S("Z", log, None, 2000)]    # Z listens to another stream
            framework.strategies._strategies.extend(strategies) if hasattr(framework.strategies, "_strategies") else None
            for ei, (kind, payload) in enumerate(EVENTS):
                log["ev"], log["datum"], log["data"] = ei, 0, payload if kind == "raw" else []
                try:
                    if kind == "raw":
                        framework._process_raw_data(fev.RawDataEvent((STREAM, "clk%d" % ei, 1700000000000 + ei, payload)))
                    elif kind == "sports":
                        sd = mock.Mock(spec=["market_id", "streaming_unique_id"])
                        sd.market_id, sd.streaming_unique_id = payload, STREAM
                        framework._process_sports_data(fev.SportsDataEvent([sd]))
                    else:
                        def cb(fw, event):
                            log["delivered"].append(["-", ei, 0, "custom"])
                            if inj and inj[:4] == ("-", ei, 0, "custom"):
                                raise (RuntimeError("injected") if inj[4] == "rt" else FlumineException("injected"))
                        framework._process_custom_event(fev.CustomEvent(None, cb))
                except Exception as e:       # the handler let it through: the main loop would die here
                    escaped.append([ei, type(e).__name__])
        finally:
            fconfig.raise_errors = saved
        return log["delivered"], escaped

    cases = []
    k = 0
    # order-stream handler: process_orders of a strategy raises while the market it concerns has no book yet
    # (orders adopted from the stream after a restart, before any market data) and in the ordinary case
    from harness.livedrv import run_live
    for order_ in (["A", "B"], ["B", "A"]):
        for victim in order_:
            for restart in (True, False):
                for kind in ("orders", "check", "book"):
                    k += 1
                    steps = [{"op": "book"},
                             {"op": "req", "strat": "A", "actions": [{"op": "place", "o": "a1", "t": "ta1", "sel": 11, "side": "BACK", "price": 2.0, "size": 4.0}]},
                             {"op": "req", "strat": "B", "actions": [{"op": "place", "o": "b1", "t": "tb1", "sel": 12, "side": "BACK", "price": 3.0, "size": 4.0}]},
                             {"op": "run", "i": 0, "plan": {}}, {"op": "run", "i": 0, "plan": {}}]
                    if restart:
                        steps.append({"op": "restart", "twice": False})
                    n_before = None
                    if kind == "orders":
                        steps += [{"op": "fill", "o": "a1", "amount": 1.0}, {"op": "snap"}, {"op": "proc", "raise": [[victim, "orders"]]}, {"op": "snap"}, {"op": "proc"}]
                        exp_tail = [[n, "orders", "1.1"] for _ in range(2) for n in order_]
                    else:
                        steps += [{"op": "book", "raise": [[victim, kind]], "k": 1}, {"op": "book", "k": 2}]
                        exp_tail = []
                        for r in (True, False):
                            for n in order_:
                                exp_tail.append([n, "check", "1.1"])
                                if not (r and n == victim and kind == "check"):
                                    exp_tail.append([n, "book", "1.1"])
                    tr = run_live({"id": "ctl%d" % k, "strategies": [{"name": n} for n in order_], "seed": 1, "steps": steps})
                    delivered = [d for d in tr["delivered"]]
                    tail = delivered[len(delivered) - len(exp_tail):] if len(delivered) >= len(exp_tail) else delivered
                    def numbered(seq):      # k-th occurrence of a callback: entries become distinct
                        seen, out_ = {}, []
                        for x in seq:
                            key = tuple(x)
                            seen[key] = seen.get(key, 0) + 1
                            out_.append(list(x) + [seen[key]])
                        return out_
                    exp_tail, tail = numbered(exp_tail), numbered(tail)
                    cases.append({"kind": "contain", "id": "ctl%d" % k, "expected": exp_tail, "delivered": tail,
                                  "escaped": [[0, e[2]] for e in tr["errors"] if e and e[0] == "escaped"], "inj": [victim, kind, "restart" if restart else "no restart"], "order": order_})
    orders = [["A", "B"], ["B", "A"]] if tier == "quick" else [["A", "B"], ["B", "A"], ["A", "B", "C"]]
    for order in orders:
        points = [None]
        base = expected_for(order, None)
        for x in base:
            if x[0] in (order[0], "-") or tier == "thorough":
                for et in ("rt", "fl"):
                    points.append((x[0], x[1], x[2], x[3], et))
        for inj in points:
            k += 1
            delivered, escaped = run(inj, order)
            cases.append({"kind": "contain", "id": "ct%d" % k, "expected": expected_for(order, inj), "delivered": delivered, "escaped": escaped,
                          "inj": list(inj) if inj else [], "order": order})
    return cases


def check_c13(tier, seed):
    t0 = time.time()
    designs = [
        {"module": "MC_SimMatch", "constants": {"Mode": '"iso"', "Prices": "{190, 200, 210}", "Sizes": "{100, 200, 300}", "Deltas": "{0, 200, 400}", "MaxOrders": "2"},
         "invariants": ["Inv_C13_Isolation"]},
        {"module": "MC_SimMatch", "constants": {"Mode": '"noiso"', "Prices": "{190, 200, 210}", "Sizes": "{100, 200, 300}", "Deltas": "{0, 400}", "MaxOrders": "1"},
         "invariants": [], "must_reach": ["Reach_NoIsoDiffers"]},
    ]
    design = run_design(designs, tier)
    if design.get("failed"):
        print("SPEC-ERROR property=C13 %s" % json.dumps(design["failed"])[:3000])
        return 2
    n_iso = 40 if tier == "quick" else 800
    n_inj = 60 if tier == "quick" else 1500
    cases, samples, traces, scn_by_id = [], [], [], {}
    # (a) isolation: run(A), run(B), run(A+B), run(B+A)
    for i in range(n_iso):
        g = Gen(seed * 104729 + i, {"n_strategies": (2, 2), "p_trade": 0.9, "p_action": 0.7, "p_iso_off": 0.0, "n_runners": (2, 2), "center": (96, 104), "p_cancel": 0.2,
                                    "n_markets": (1, 2), "p_limits": 0.2, "p_removal": 0.05, "p_close": 0.8, "p_inplay": 0.5 if i % 4 == 0 else 0.1})
        scn = g.scenario("iso%d" % i)
        scn["cfg"]["isolation"] = True
        A, B = scn["strategies"][0], scn["strategies"][1]
        if i % 4 == 0:
            # the two strategies read the same files through differently filtered streams (a falsy but meaningful filter
            # value on one side): what each receives must not depend on the other being registered, nor on the order
            A["listener_kwargs"] = [{"inplay": False}, {"max_inplay_seconds": 0}, {"inplay": False}][(i // 4) % 3]
            B["listener_kwargs"] = {}

        def variant(strats, vid):
            s = copy.deepcopy(scn)
            s["id"] = "%s_%s" % (scn["id"], vid)
            s["strategies"] = copy.deepcopy(strats)
            return s
        r_a = run_scenario(variant([A], "a"), snapshots=False)
        r_b = run_scenario(variant([B], "b"), snapshots=False)
        r_ab = run_scenario(variant([A, B], "ab"), snapshots=False)
        r_ba = run_scenario(variant([B, A], "ba"), snapshots=False)
        def filters_of(run):     # what each strategy asked for and what the stream it was attached to applies
            out_ = []
            for st_ in run["rec"].flumine.strategies:
                want = json.dumps(dict(st_.market_filter.get("listener_kwargs", {})), sort_keys=True)
                for sm in st_.streams:
                    out_.append([st_.name, want, json.dumps(dict(sm.listener_kwargs or {}), sort_keys=True)])
            return out_
        case = {"kind": "iso", "id": scn["id"], "filters_differ": A.get("listener_kwargs", {}) != B.get("listener_kwargs", {}),
                "filters": filters_of(r_ab) + filters_of(r_ba), "solo": ledger_of(r_a, "A"), "ab": ledger_of(r_ab, "A"), "ba": ledger_of(r_ba, "A"),
                "solo_b": ledger_of(r_b, "B"), "ab_b": ledger_of(r_ab, "B"), "ba_b": ledger_of(r_ba, "B")}
        cases.append(case)
        scn_by_id[scn["id"]] = scn
        if i == 0:
            samples.append({"iso_scenario": scn["id"], "orders_A": len(case["solo"]), "orders_B": len(case["solo_b"]), "A_head": case["solo"][:1]})
    # (b) error containment
    for i in range(n_inj):
        g = Gen(seed * 15485863 + i, {"n_strategies": (2, 3), "p_action": 0.6, "n_markets": (1, 2), "p_close": 0.7, "p_raise": 0.15})
        scn = g.scenario("inj%d" % i)
        rnd = g.rnd
        # exceptions in check_market_book / process_new_market of one strategy, and in a middleware
        victim = rnd.choice(scn["strategies"])
        mk = scn["markets"][rnd.randrange(len(scn["markets"]))]
        ups = [u for u in mk["updates"] if u.get("status") != "CLOSED"]
        if ups:
            u = rnd.choice(ups)
            kind = rnd.choice(["check", "new", "check"])
            if kind == "new":
                u = ups[0]
            victim.setdefault("raise", {})["%s|%d|%s" % (mk["id"], u["pt"], kind)] = rnd.choice(["rt", "fl"])
        mw_keys = ["%s|%d" % (mk["id"], u["pt"]) for u in ups if rnd.random() < 0.2]

        def setup(framework, rec, strategies, mw_keys=mw_keys):
            framework.add_market_middleware(RaisingMiddleware(mw_keys))
        tr = run_scenario(scn, extra_setup=setup)
        cases.append(inject_case(scn, tr))
        traces.append(strip(tr))
        scn_by_id[scn["id"]] = scn
        if i == 0:
            samples.append({"inject_scenario": scn["id"], "raise": victim.get("raise"), "middleware_raises_at": mw_keys, "deliveries": len(cases[-1]["delivered"])})
    ncontain = 0
    for c in contain_cases(tier):
        cases.append(c)
        scn_by_id[c["id"]] = {"contain_case": c["inj"], "order": c["order"]}
        ncontain += 1
    wd = tlc.workdir("c13")
    try:
        res = validate_cases(cases, ["C13"], wd)
    finally:
        shutil.rmtree(wd, ignore_errors=True)
    # the framework's order state stays consistent: the lifecycle / accounting / blotter formulas on the traces
    res2 = tlc.validate_traces(traces, "SimTrace", ["R", "C02", "C03", "C10", "C15"], workers=8, batch=400, timeout=1500)
    if res2["errors"]:
        print("MACHINERY-ERROR property=C13 trace validation: %s" % json.dumps(res2["errors"])[:2000])
        return 2
    by_id = {t["id"]: t for t in traces}
    extra_viol = [dict(v, prop="C13", name="StateConsistent:" + v["name"]) for v in res2["viol"]]
    # known findings of the underlying formulas do not count against C13
    un, ex = findings.classify([dict(v, prop=v0["prop"], name=v0["name"]) for v, v0 in zip(extra_viol, res2["viol"])], by_id)
    res["viol"] += [dict(v, prop="C13", name="StateConsistent:" + v["name"]) for v in un]
    res["states"] += res2["states"]
    res["drift"] = res2["drift"]
    return finish("C13", tier, seed, design, cases, res, samples, t0,
                  rule="(a) per-strategy ledgers of run(A), run(A+B), run(B+A) compared; (b) exceptions injected into check_market_book / process_new_market / process_market_book / process_orders of one strategy and into a middleware: deliveries to every strategy vs the list derived from the processed updates, step order, and the lifecycle/accounting/blotter formulas on the recorded traces",
                  assumptions=["simulation mode; the live dispatch loops are covered by the live driver (C13 live part in checks/livecheck.py)", "documented callbacks only (process_closed_market is not wrapped by the code and not in the property's list)"],
                  scn_by_id=scn_by_id)


# ----------------------------------------------------------------------------------------
def validate_cases(cases, props, wd, module="RunTrace"):
    tf = os.path.join(wd, "cases.json")
    with open(tf, "w") as f:
        json.dump(cases, f)
    cfg = os.path.join(wd, module + ".cfg")
    tlc.write_cfg(cfg, constants={"Props": "{" + ", ".join('"%s"' % p for p in props) + "}"})
    r = tlc.run_tlc(os.path.join(tlc.SPEC, module + ".tla"), cfg, wd, workers=8, timeout=1500, env={"TRACE_FILE": tf}, heap="8g")
    out = {"viol": [], "drift": [], "states": r.get("distinct", 0), "errors": []}
    if r["timed_out"] or not r["finished"] or r.get("distinct") != len(cases):
        out["errors"].append({"distinct": r.get("distinct"), "expected": len(cases), "tail": r["out"][-3000:]})
    for v in tlc.printed_tuples(r["out"]):
        if v[0] == "VIOL":
            out["viol"].append({"prop": v[1], "name": v[2], "trace": v[3], "step": v[4], "detail": v[5] if len(v) > 5 else None})
    return out


def finish(prop, tier, seed, design, cases, res, samples, t0, rule, assumptions, scn_by_id=None):
    if res["errors"]:
        print("MACHINERY-ERROR property=%s case validation incomplete: %s" % (prop, json.dumps(res["errors"])[:3000]))
        return 2
    viol = [v for v in res["viol"] if v["prop"] == prop]
    # known findings that concern whole-run cases (structural matchers in harness/findings.py)
    cases_by_id = {c["id"]: c for c in cases}
    explained = {}
    rest = []
    for v in viol:
        fid = findings.classify_case(v, cases_by_id.get(v["trace"]))
        if fid:
            explained.setdefault(fid, []).append(v)
        else:
            rest.append(v)
    viol = rest
    for fid, vs in sorted(explained.items()):
        f = [x for x in findings.load() if x["id"] == fid][0]
        print("KNOWN-FINDING: property=%s %s [%s] (%d occurrences in %d cases)" % (prop, f["what"][:220], fid, len(vs), len(set(v["trace"] for v in vs))))
    rc = 0
    if viol:
        os.makedirs(os.path.join(ROOT, "replays"), exist_ok=True)
        done = set()
        for v in viol:
            if v["trace"] in done:
                continue
            done.add(v["trace"])
            path = os.path.join(ROOT, "replays", "%s_%s_%s.json" % (prop, v["name"].replace(":", "_"), v["trace"]))
            case = [c for c in cases if c["id"] == v["trace"]]
            with open(path, "w") as f:
                json.dump({"property": prop, "violation": v, "case": case[0] if case else None, "scenario": (scn_by_id or {}).get(v["trace"])}, f)
            print("VIOLATION property=%s replay=%s formula=%s detail=%s" % (prop, path, v["name"], json.dumps(v["detail"])[:300]))
            if len(done) >= 10:
                break
        rc = 1
    kinds = collections.Counter(c["kind"] for c in cases)
    cov = {
        "states": design["states"] + res["states"],
        "transitions": design["transitions"] + res["states"],
        "traces_validated_against_impl": len(cases),
        "samples": samples,
        "design_runs": design["runs"],
        "cases_by_kind": dict(kinds),
        "rule": rule,
        "evaluations": len(cases),
        "distinct_nontrivial": len(set(json.dumps(c, sort_keys=True) for c in cases if (c.get("delivered") or c.get("solo") or c.get("runs")))),
        "drift": len(res.get("drift", [])),
        "violations_unexplained": len(viol),
        "known_findings_hit": {k: len(v) for k, v in explained.items()},
    }
    evidence.write(prop, tier, seed, cov, assumptions, time.time() - t0, len(viol))
    print("%s %s: design %d states, %d cases %s validated, %d violations, %.1fs" % (prop, tier, design["states"], len(cases), dict(kinds), len(viol), time.time() - t0))
    return rc


def run_check(prop, tier, seed):
    return check_c13(tier, seed) if prop == "C13" else check_c14(tier, seed)
