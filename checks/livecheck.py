"""Live-mode checks: C11 (reconciliation / adoption), C12 (exchange call faults) and the live halves of
C03 / C10 / C15 / C20, on traces of the real Flumine + BetfairExecution against the exchange double."""
import os
import sys
import json
import time
import collections

ROOT = os.path.dirname(os.path.dirname(os.path.abspath(__file__)))
sys.path.insert(0, ROOT)

from harness import tlc, evidence, findings  # noqa: E402
from harness.gen_live import scenario  # noqa: E402
from harness.livedrv import run_live  # noqa: E402
from checks.simcheck import run_design  # noqa: E402


def fault_family(tier):
    """every assignment of report outcomes to packages of 1..2 (thorough: 3) orders of each kind, API errors
    on the 1st..4th attempt, with / without a snapshot processed during the call"""
    import itertools
    from harness.gen_live import PLACE_OUT, CANCEL_OUT, UPDATE_OUT, REPLACE_OUT
    outs = {"PLACE": sorted(set(PLACE_OUT)), "CANCEL": sorted(set(CANCEL_OUT)), "UPDATE": sorted(set(UPDATE_OUT)), "REPLACE": sorted(set(REPLACE_OUT))}
    scns = []
    k = 0
    sizes = (1, 2) if tier == "quick" else (1, 2, 3)
    for kind in ("PLACE", "CANCEL", "UPDATE", "REPLACE"):
        for n in sizes:
            combos = list(itertools.product(outs[kind], repeat=n))
            if tier == "quick" and len(combos) > 30:
                combos = combos[::max(1, len(combos) // 30)]
            for combo in combos:
                for during in (False, True):
                    k += 1
                    scns.append(_fault_scn("f%d" % k, kind, n, {"reports": list(combo), **({"during": "snapshot"} if during else {})}))
            # cancel reports permuted / missing
            if kind == "CANCEL" and n > 1:
                for perm in ([list(reversed(range(n)))] + [list(range(n - 1))]):
                    k += 1
                    scns.append(_fault_scn("f%d" % k, kind, n, {"reports": ["SUCCESS"] * n, "perm": perm}))
            # transport / API errors on attempts 1..4, applied or not
            for fails in (1, 2, 3, 4):
                for applied in (False, True):
                    k += 1
                    scns.append(_fault_scn("f%d" % k, kind, n, None, raises=fails, applied=applied))
            # an order of the package completes between the request and the response (filled at the exchange, stream processed)
            if kind != "PLACE":
                k += 1
                scns.append(_fault_scn("f%d" % k, kind, n, {"reports": [outs[kind][0]] * n}, complete_first=True))
                # ... or during the back-off between a failed attempt and its retry (incl. the last retry failing too)
                for fails in (1, 2, 4):
                    for which in sorted({0, n - 1}):
                        k += 1
                        scns.append(_fault_scn("f%d" % k, kind, n, {"reports": [outs[kind][0]] * n}, raises=fails, complete_in_backoff=which))
                        # ... or before the first attempt, which then fails (the retry is decided with the completion known)
                        k += 1
                        scns.append(_fault_scn("f%d" % k, kind, n, {"reports": [outs[kind][0]] * n}, raises=fails, complete_first=True, complete_which=which))
    return scns


def _fault_scn(sid, kind, n, plan, raises=0, applied=False, complete_first=False, complete_in_backoff=None, complete_which=0):
    steps = [{"op": "book"}]
    labs = ["o%d" % (i + 1) for i in range(n)]
    steps.append({"op": "req", "actions": [{"op": "place", "o": l, "t": "t_" + l, "sel": 11, "side": "BACK", "price": 2.0, "size": 4.0} for l in labs]})
    if kind == "PLACE":
        for _ in range(n - 1):
            pass
    else:
        for _ in labs:
            steps.append({"op": "run", "i": 0, "plan": {}})
        steps += [{"op": "snap"}, {"op": "proc"}]
        act = {"CANCEL": lambda l: {"op": "cancel", "o": l}, "UPDATE": lambda l: {"op": "update", "o": l}, "REPLACE": lambda l: {"op": "replace", "o": l, "price": 2.4}}[kind]
        # one transaction -> one package of n orders
        steps.append({"op": "reqtxn", "actions": [act(l) for l in labs]})
        if complete_first:
            steps += [{"op": "fill", "o": labs[complete_which], "amount": 4.0}, {"op": "snap"}, {"op": "proc"}]
    if kind == "PLACE":
        steps[1] = {"op": "reqtxn", "actions": steps[1]["actions"]}
    for a in range(raises):
        steps.append({"op": "run", "i": 0, "plan": {"raise": True, "apply": applied and a == 0}})
        if a == 0 and complete_in_backoff is not None:
            steps += [{"op": "fill", "o": labs[complete_in_backoff], "amount": 4.0}, {"op": "snap"}, {"op": "proc"}]
    steps.append({"op": "run", "i": 0, "plan": plan or {}})
    steps += [{"op": "run", "i": 0, "plan": {}}, {"op": "snap"}, {"op": "proc"}]
    return {"id": sid, "strategies": [{"name": "A"}], "steps": steps, "seed": 1}


def reuse_family(tier):
    """a trade that completed once receives a new order (the strategy re-enters in the same trade); the placement then
    meets every outcome: each report, API errors on the 1st..4th attempt (exhausted retries complete the order), with
    a second strategy-free check afterwards that the runner is open for business again"""
    from harness.gen_live import PLACE_OUT
    scns = []
    k = 0
    for first_end in ("fill", "lapse"):
        outcomes = [("rep", o) for o in sorted(set(PLACE_OUT))] + [("raise", (f, ap)) for f in (1, 2, 3, 4) for ap in (False, True)]
        for what, arg in outcomes:
            k += 1
            steps = [{"op": "book"}, {"op": "req", "actions": [{"op": "place", "o": "o1", "t": "t_o1", "sel": 11, "side": "BACK", "price": 2.0, "size": 4.0}]},
                     {"op": "run", "i": 0, "plan": {}}, {"op": "snap"}, {"op": "proc"},
                     {"op": first_end, "o": "o1", "amount": 4.0}, {"op": "snap"}, {"op": "proc"},
                     {"op": "req", "actions": [{"op": "place", "o": "o2", "t": "t_o1", "sel": 11, "side": "BACK", "price": 2.2, "size": 2.0}]}]
            if what == "rep":
                steps.append({"op": "run", "i": 0, "plan": {"reports": [arg]}})
            else:
                fails, applied = arg
                for a in range(fails):
                    steps.append({"op": "run", "i": 0, "plan": {"raise": True, "apply": applied and a == 0}})
            steps += [{"op": "run", "i": 0, "plan": {}}, {"op": "run", "i": 0, "plan": {}}, {"op": "snap"}, {"op": "proc"}, {"op": "snap"}, {"op": "proc"}]
            # the strategy comes back to the runner with a fresh trade
            steps += [{"op": "req", "actions": [{"op": "place", "o": "o3", "t": "t_o3", "sel": 11, "side": "BACK", "price": 2.4, "size": 2.0}]},
                      {"op": "run", "i": 0, "plan": {}}, {"op": "snap"}, {"op": "proc"}]
            scns.append({"id": "ru%d" % k, "strategies": [{"name": "A"}], "steps": steps, "seed": 1})
    return scns


def line_family(tier):
    """line markets (one selection id on several handicaps): orders and adopted bets on lines of a selection,
    with and without an order on the handicap-0 runner of the same selection, crash + restart, completion after it"""
    scns = []
    k = 0
    for hc in (-0.5, 1.5):
        for also_zero in (False, True):
            for how in ("restart", "foreign", "foreign_then_restart"):
                for finish in ("fill", "cancel", "none"):
                    k += 1
                    steps = [{"op": "book"}]
                    acts = [{"op": "place", "o": "o1", "t": "t_o1", "sel": 11, "hc": hc, "side": "BACK", "price": 2.0, "size": 4.0}]
                    if also_zero:
                        acts.append({"op": "place", "o": "o2", "t": "t_o2", "sel": 11, "side": "LAY", "price": 3.0, "size": 2.0})
                    steps.append({"op": "req", "actions": acts})
                    steps += [{"op": "run", "i": 0, "plan": {}} for _ in acts] + [{"op": "snap"}, {"op": "proc"}]
                    if how != "restart":
                        steps += [{"op": "foreign", "mid": "1.1", "sel": 11, "hc": hc, "known": True}, {"op": "snap"}, {"op": "proc"}]
                    if how != "foreign":
                        steps.append({"op": "restart"})
                    # the adopted order completes; the strategy places again on the line
                    if finish == "fill":
                        steps += [{"op": "fill", "o": "o1", "amount": 4.0}, {"op": "snap"}, {"op": "proc"}]
                    elif finish == "cancel":
                        steps += [{"op": "lapse", "o": "o1"}, {"op": "snap"}, {"op": "proc"}]
                    steps.append({"op": "req", "actions": [{"op": "place", "o": "o9", "t": "t_o9", "sel": 11, "hc": hc, "side": "BACK", "price": 2.2, "size": 2.0}]})
                    steps += [{"op": "run", "i": 0, "plan": {}}, {"op": "snap"}, {"op": "proc"}]
                    scns.append({"id": "ln%d" % k, "strategies": [{"name": "A"}], "steps": steps, "seed": 1})
    return scns


def run_check(prop, tier, seed, designs=None, only_live=True, replay=None):
    t0 = time.time()
    design = run_design(designs or [], tier)
    if design.get("failed"):
        print("SPEC-ERROR property=%s %s" % (prop, json.dumps(design["failed"])[:3000]))
        return 2
    n = {"quick": 90, "thorough": 2500}[tier]
    scns = {}
    if replay:
        with open(replay) as f:
            doc = json.load(f)
        scn = doc.get("live_scenario", doc)
        scns[scn["id"]] = scn
        n = 0
    for i in range(n):
        scn = scenario(seed * 100003 + i, "L%d" % i, n_steps=30 if i % 2 else 45, restart=(i % 3 == 0), two_strategies=(i % 4 == 1), p_fault=0.35 if prop != "C11" else 0.2)
        scns[scn["id"]] = scn
    if prop in ("C12", "C03") and not replay:
        for scn in fault_family(tier):
            scns[scn["id"]] = scn
    if prop in ("C11", "C10", "C15") and not replay:
        for scn in line_family(tier):
            scns[scn["id"]] = scn
    if prop in ("C10", "C12") and not replay:
        for scn in reuse_family(tier):
            scns[scn["id"]] = scn
    traces = [run_live(s) for s in scns.values()]
    # E2: behaviours of the design model MC_LiveRun generated by TLC, stepped through the real code
    e2 = {"behaviours": 0, "steps": 0, "mismatching": 0, "examples": []}
    if not replay:
        from harness import replay_live
        behs, gr = replay_live.generate({"quick": 300, "thorough": 6000}[tier], 16, seed * 37 + (5 if tier == "thorough" else 0))
        if not behs:
            print("MACHINERY-ERROR property=%s TLC generated no behaviour of MC_LiveRun: %s" % (prop, gr.get("out", "")[-1500:]))
            return 2
        for i, beh in enumerate(behs):
            tr, mism, scn = replay_live.replay(beh, "m%d" % i)
            scns[scn["id"]] = scn
            traces.append(tr)
            e2["behaviours"] += 1
            e2["steps"] += len(beh) - 1
            if mism:
                e2["mismatching"] += 1
                if len(e2["examples"]) < 3:
                    e2["examples"].append({"trace": scn["id"], "first": mism[0]})
    by_id = {t["id"]: t for t in traces}
    res = tlc.validate_traces(traces, "LiveTrace", [prop], workers=8, batch=300, timeout=1500)
    if res["errors"]:
        print("MACHINERY-ERROR property=%s live trace validation: %s" % (prop, json.dumps(res["errors"])[:3000]))
        return 2
    viol = [v for v in res["viol"] if v["prop"] == prop]
    unexplained, explained = findings.classify(viol, by_id)
    rc = 0
    for fid, vs in sorted(explained.items()):
        f = [x for x in findings.load() if x["id"] == fid][0]
        print("KNOWN-FINDING: property=%s %s [%s] (%d occurrences in %d traces)" % (prop, f["what"][:220], fid, len(vs), len(set(v["trace"] for v in vs))))
    if unexplained:
        os.makedirs(os.path.join(ROOT, "replays"), exist_ok=True)
        done = set()
        for v in unexplained:
            if v["trace"] in done:
                continue
            done.add(v["trace"])
            path = os.path.join(ROOT, "replays", "%s_live_%s_%s.json" % (prop, v["name"], v["trace"]))
            with open(path, "w") as f:
                json.dump({"property": prop, "violation": v, "live_scenario": scns[v["trace"]]}, f)
            print("VIOLATION property=%s replay=%s formula=%s step=%s detail=%s" % (prop, path, v["name"], v["step"], json.dumps(v["detail"])[:300]))
            if len(done) >= 10:
                break
        rc = 1
    act = collections.Counter()
    for t in traces:
        for s in t["steps"]:
            act["ev_" + s["ev"]] += 1
            if s["ev"] == "run":
                act["run_%s_%s" % (s["a"]["kind"], "answered" if s["a"]["answered"] else ("raised" if s["a"]["called"] else "nocall"))] += 1
                for o in s["a"].get("outs", {}).values():
                    act["report_%s" % o["status"]] += 1
            for tr in s["trans"]:
                act["trans_%s>%s" % (tr[1], tr[2])] += 1
            if s["a"].get("quiescent"):
                act["quiescent_points"] += 1
    if e2["mismatching"]:
        print("DRIFT module=MC_LiveRun action=replay count=%d first: %s" % (e2["mismatching"], json.dumps(e2["examples"][0])[:500]))
    return {"rc": rc, "design": design, "traces": traces, "res": res, "unexplained": unexplained, "explained": explained, "activity": dict(act), "scns": scns, "t0": t0, "e2": e2}


def finish_live(prop, tier, seed, out, rule, assumptions, sim_cov=None):
    design, traces, res = out["design"], out["traces"], out["res"]
    s0 = traces[0]
    sample = {"scenario_steps": [st["op"] for st in out["scns"][s0["id"]]["steps"]][:40], "events": [s["ev"] for s in s0["steps"]][:40], "api_calls": s0["calls"][:4]}
    cov = {"states": design["states"] + res["states"], "transitions": design["transitions"] + res["states"], "traces_validated_against_impl": len(traces), "samples": [sample],
           "design_runs": design["runs"], "activity": out["activity"], "rule": rule, "evaluations": len(traces),
           "distinct_nontrivial": len(set(json.dumps([s["ev"] for s in t["steps"]]) + json.dumps(t["steps"][-1]["st"]["ord"], sort_keys=True) for t in traces)),
           "violations_unexplained": len(out["unexplained"]), "known_findings_hit": {k: len(v) for k, v in out["explained"].items()},
           "model_behaviours_replayed_into_impl": out.get("e2", {})}
    if sim_cov:   # simulated-execution half validated by checks/simcheck.py (SimTrace.tla, P_C12S)
        cov["simulated_execution"] = {k: sim_cov[k] for k in ("traces_validated_against_impl", "trace_states_checked", "activity", "drift", "violations_unexplained") if k in sim_cov}
        cov["traces_validated_against_impl"] += sim_cov["traces_validated_against_impl"]
        cov["states"] += sim_cov["trace_states_checked"]
        cov["transitions"] += sim_cov["trace_states_checked"]
        cov["samples"] += sim_cov["samples"][:1]
    evidence.write(prop, tier, seed, cov, assumptions, time.time() - out["t0"], len(out["unexplained"]) + (sim_cov or {}).get("violations_unexplained", 0))
    print("%s %s (live): design %d states, %d live traces (%d steps) validated, %d violations, %d known-finding hits, %d model behaviours replayed (%d differ), %.1fs" % (prop, tier, design["states"], len(traces), res["states"], len(out["unexplained"]), sum(len(v) for v in out["explained"].values()), out.get("e2", {}).get("behaviours", 0), out.get("e2", {}).get("mismatching", 0), time.time() - out["t0"]))
    return out["rc"]
