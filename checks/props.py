"""Per-property configuration of the checks."""

MC_SIMCORE_SHARED = {"Orders": '{"o1", "o2"}', "TradeOf": "<- TradeOfDef", "Size": "2", "MaxClock": "5", "MaxReqs": "4", "AllowReplace": "TRUE"}
MC_SIMCORE_SEP = dict(MC_SIMCORE_SHARED, TradeOf="<- TradeOfSep")
MC_SIMCORE_DEEP = dict(MC_SIMCORE_SEP, MaxClock="6", MaxReqs="5")

WITNESSES = ["Reach_CompleteOrder", "Reach_Replacement", "Reach_TradeComplete"]


def simcore_designs(invariants, properties=()):
    return [
        {"module": "MC_SimCore", "constants": MC_SIMCORE_SHARED, "invariants": invariants, "properties": properties, "must_reach": WITNESSES},
        {"module": "MC_SimCore", "constants": MC_SIMCORE_SEP, "invariants": invariants, "properties": properties},
        {"module": "MC_SimCore", "constants": MC_SIMCORE_DEEP, "invariants": invariants, "properties": properties, "tier": "thorough", "timeout": 1500},
    ]


LIFECYCLE_PROFILES = [
    {},
    {"p_suspend": 0.25, "p_cancel": 0.4, "p_removal": 0.08},
    {"p_replace": 0.4, "p_mver": 0.4, "p_txn": 0.5, "n_strategies": (1, 1), "p_suspend": 0.15},
    {"n_markets": (2, 2), "event_processing": True, "p_inplay": 0.15, "p_sp_order": 0.3, "p_moc_pers": 0.3},
]

ASSUME_SIM = [
    "simulation mode only here; live mode is decided by the LiveRun checks",
    "scenarios bounded: <= 2 markets, <= 3 runners, <= 17 updates, <= 8 orders per strategy, <= 2 strategies",
    "TLC 1.8, the recorder's projection (harness/simdrv.py) and betfairlightweight's stream cache are trusted",
]

SIM = {
    "C03": {
        "props": ["C03"],
        "designs": simcore_designs(["Inv_C03_OneInFlight"], ["Prop_C03_Finality"]),
        "profiles": LIFECYCLE_PROFILES,
        "n_quick": 160, "n_thorough": 4000,
        "rule": "seeded random market histories x strategy scripts through the real FlumineSimulation; every _update_status call, request and recorded state judged by the C03 formulas of SimProps.tla; distinct = distinct (event sequence, final order table)",
        "assumptions": ASSUME_SIM,
    },
    "C04": {
        "props": ["C04"],
        "designs": simcore_designs(["Inv_C04_Conserved", "Inv_C04_CompleteIff"], ["Prop_C04_MatchedMonotone"]),
        "profiles": LIFECYCLE_PROFILES + [{"p_partial_cancel": 0.8, "p_big_reduction": 0.5, "p_removal": 0.12, "p_cancel": 0.5}],
        "n_quick": 200, "n_thorough": 5000,
        "rule": "as C03; the size buckets of every order are judged whenever a strategy callback is entered",
        "assumptions": ASSUME_SIM,
    },
    "C10": {
        "props": ["C10"],
        "designs": simcore_designs(["Inv_C10_LiveTradesExact", "Inv_C10_TradeCompleteIff", "Inv_C10_NoTradePending", "Inv_C10_RcClean"]),
        "profiles": LIFECYCLE_PROFILES + [{"p_limits": 0.9, "p_cooldown": 0.6, "p_multi_trade": 0.5, "gaps": [1, 40, 100, 120, 121, 1000, 5000], "p_ctx_trade": 0.3}],
        "n_quick": 200, "n_thorough": 5000,
        "rule": "as C03; runner contexts recounted from the orders at the end of every update, limits checked at every accepted placement",
        "assumptions": ASSUME_SIM,
    },
    "C15": {
        "props": ["C15"],
        "designs": simcore_designs(["Inv_C15_LiveListComplete", "Inv_C15_LiveInBlotter"], ["Prop_C15_RemovedOnlyAfterComplete"]),
        "profiles": LIFECYCLE_PROFILES,
        "n_quick": 160, "n_thorough": 4000,
        "rule": "as C03; blotter membership / live list judged at the end of every update and on every step",
        "assumptions": ASSUME_SIM,
    },
}
