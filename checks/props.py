"""Per-property configuration of the checks."""

MC_SIMCORE_SHARED = {"Orders": '{"o1", "o2"}', "TradeOf": "<- TradeOfDef", "Size": "2", "MaxClock": "5", "MaxReqs": "4", "AllowReplace": "TRUE"}
MC_SIMCORE_SEP = dict(MC_SIMCORE_SHARED, TradeOf="<- TradeOfSep")
MC_SIMCORE_DEEP = dict(MC_SIMCORE_SEP, MaxClock="6", MaxReqs="5")

WITNESSES = ["Reach_CompleteOrder", "Reach_Replacement", "Reach_TradeComplete", "Reach_VoidedMatched"]


def simcore_designs(invariants, properties=()):
    return [
        {"module": "MC_SimCore", "constants": MC_SIMCORE_SHARED, "invariants": invariants, "properties": properties, "must_reach": WITNESSES},
        {"module": "MC_SimCore", "constants": MC_SIMCORE_SEP, "invariants": invariants, "properties": properties},
        {"module": "MC_SimCore", "constants": MC_SIMCORE_DEEP, "invariants": invariants, "properties": properties, "tier": "thorough", "timeout": 1500},
    ]


SIMRUN_INV = {"Inv_C03_OneInFlight", "Inv_C04_Conserved", "Inv_C04_CompleteIff", "Inv_C10_LiveTradesExact", "Inv_C10_TradeCompleteIff",
              "Inv_C10_NoTradePending", "Inv_C15_LiveListComplete", "Inv_C07_NoDueLeft", "Inv_C05_FokNeverRests", "Inv_C09_RemovedComplete",
              "Inv_C08_UnmatchedPaysNothing", "Inv_C08_RemovedPaysNothing", "Inv_C08_LossBounded", "Inv_C20_Released", "Inv_C04_FragmentsAtClose"}
SIMRUN_PROP = {"Prop_C03_Finality", "Prop_C04_MatchedMonotone"}


def simrun_designs(invariants, properties=(), quick=True):
    """the closed concrete model (environment + matching engine + strategy menu), the same one whose
    behaviours are replayed into the real code"""
    inv = [i for i in invariants if i in SIMRUN_INV]
    prp = [q for q in properties if q in SIMRUN_PROP]
    out = []
    if quick:
        out.append({"module": "MC_SimRun", "constants": {"MaxUpdates": "3", "MaxReqs": "2", "TwoStrats": "FALSE", "Iso": "TRUE", "WithClose": "TRUE"}, "view": "View", "invariants": inv, "properties": prp,
                    "must_reach": ["Reach_Replacement", "Reach_ClosedWithFill", "Reach_FilledOnClosingUpdate", "Reach_RemovedAtCloseWithFill"], "timeout": 900})
    out.append({"module": "MC_SimRun", "constants": {"MaxUpdates": "4", "MaxReqs": "3", "TwoStrats": "FALSE", "Iso": "TRUE", "WithClose": "TRUE"}, "view": "View", "invariants": inv, "properties": prp,
                "must_reach": ["Reach_Replacement", "Reach_QueueHonoured", "Reach_ClosedWithFill"], "tier": "thorough", "timeout": 2400})
    return out


LIFECYCLE_PROFILES = [
    {},
    {"p_suspend": 0.25, "p_cancel": 0.4, "p_removal": 0.08},
    {"p_replace": 0.4, "p_mver": 0.4, "p_txn": 0.5, "n_strategies": (1, 1), "p_suspend": 0.15},
    {"n_markets": (2, 2), "event_processing": True, "p_inplay": 0.15, "p_sp_order": 0.3, "p_moc_pers": 0.3},
]

ASSUME_SIM = [
    "simulation mode only here; live mode is decided by the LiveRun checks",
    "scenarios bounded: <= 2 markets, <= 3 runners, <= 17 updates, <= 8 orders per strategy, <= 2 strategies",
    "TLC 1.8, the recorder's projection (harness/simdrv.py) and betfairlightweight's stream cache are trusted",
]

MATCH_PLACE_Q = {"Mode": '"place"', "Prices": "{190, 200, 210}", "Sizes": "{100, 200, 300}", "Deltas": "{0, 400}", "MaxOrders": "2"}
MATCH_PLACE_T = dict(MATCH_PLACE_Q, Deltas="{0, 200, 400}")
MATCH_GROUP_Q = {"Mode": '"group"', "Prices": "{190, 200, 210}", "Sizes": "{100, 200, 300}", "Deltas": "{0, 200, 400}", "MaxOrders": "2"}
MATCH_GROUP_T = dict(MATCH_GROUP_Q, MaxOrders="3")
C05_INV = ["Inv_C05_FillWithinLimit", "Inv_C05_LevelNotOverdrawn", "Inv_C05_FokAllOrNothing", "Inv_C05_BpeLapse", "Inv_C04_Place"]
C06_INV_PLACE = ["Inv_C06_QueueCaptured", "Inv_C06_LoneExact"]

MATCH_PROFILES = [
    {"p_trade": 0.8, "p_fok": 0.35, "p_bpe_off": 0.3, "n_strategies": (1, 2), "p_cancel": 0.15, "p_replace": 0.2},
    {"p_trade": 0.9, "p_iso_off": 0.5, "n_strategies": (2, 2), "max_orders": 8, "p_action": 0.7, "p_cancel": 0.1, "p_sp_order": 0.05, "n_runners": (2, 2), "center": (98, 104)},
    {"p_full_match": 0.3, "p_fok": 0.3, "sizes": [2.0, 0.02, 2.36, 12.5, 50.0], "p_mver": 0.3},
]

SIM = {
    "C01": {
        "props": ["C01"],
        "designs": [{"module": "MC_Exposure", "constants": {"MaxOrders": "2", "Mode": '"selection"'}, "invariants": ["Inv_ReportedEqualsBrute", "Inv_PendingAndRefusedLeftOut", "Inv_NewOrderIsAddition"]},
                    {"module": "MC_Gate", "constants": {"MaxSteps": "4", "Limit": "4", "Deviations": "{}"}, "invariants": ["Inv_LossBounded", "Inv_SentOnlyIfWithin"], "must_reach": ["Reach_Filled"]},
                    {"module": "MC_Gate", "constants": {"MaxSteps": "5", "Limit": "4", "Deviations": "{}"}, "invariants": ["Inv_LossBounded", "Inv_SentOnlyIfWithin"], "tier": "thorough"},
                    {"module": "MC_Gate", "constants": {"MaxSteps": "4", "Limit": "4", "Deviations": '{"D1"}'}, "invariants": ["Inv_LossBoundedUnlessTainted", "Inv_SentOnlyIfWithinUnlessTainted"], "must_reach": ["Reach_D1Breach"]}],
        "profiles": [{"p_force": 0.0, "p_multi_trade": 0.0, "p_limits": 0.0, "p_trade": 0.9, "n_strategies": (1, 2), "p_explimits": 1.0, "discipline": True, "p_replace": 0.35, "p_action": 0.8, "sizes": [2.0, 3.0, 4.0, 5.0, 8.0], "p_sp_order": 0.2, "p_inplay": 0.15},
                     {"p_force": 0.0, "p_multi_trade": 0.0, "p_limits": 0.0, "p_trade": 0.9, "p_explimits": 1.0, "discipline": True, "p_replace_dup": 0.3, "p_action": 0.8, "sizes": [2.0, 5.0, 8.0, 12.0], "center": (30, 120)}],
        "extra": "exposure",
        "n_quick": 200, "n_thorough": 5000,
        "rule": "strategies with every combination of the three limits, one live single-order trade per runner (acknowledgement discipline guaranteed by max_live_trade_count=1), random histories with fills / cancels / lapses / SP / close; at every accepted non-forced PLACE/REPLACE the brute-force worst case of position + order (Exposure.tla) is compared with the limits, and the worst-case loss per selection at the end of every update",
        "assumptions": ASSUME_SIM + ["tolerance 0.01 per order in the position", "unacknowledged (PENDING) orders are excluded from exposure by the property's own domain note"],
    },
    "C02": {
        "props": ["C02"],
        "designs": [],
        "profiles": [{"p_txn": 0.6, "p_force": 0.15, "p_mver": 0.4, "p_replace_dup": 0.15, "p_explimits": 0.7, "p_limits": 0.6, "p_suspend": 0.2, "p_txlimit": 0.25, "p_action": 0.8, "p_cancel": 0.35, "p_replace": 0.3, "p_update": 0.2},
                     {"p_txn": 0.3, "p_force": 0.05, "p_explimits": 0.5, "p_suspend": 0.1, "sizes": [2.0, 0.001, 0.5, 2.345, 5.0, -1.0], "p_action": 0.8}],
        "n_quick": 160, "n_thorough": 4000,
        "rule": "",
        "assumptions": ASSUME_SIM,
    },
    "C12": {
        "props": ["C12"],
        "designs": [],
        "profiles": [{"p_txn": 0.7, "p_cancel": 0.4, "p_replace": 0.4, "p_update": 0.25, "p_suspend": 0.25, "p_mver": 0.3, "p_trade": 0.85, "p_action": 0.85, "max_orders": 10, "n_strategies": (1, 1), "p_multi_trade": 0.4, "p_removal": 0.06, "p_txlimit": 0.5}],
        "extra": ["replace_package", "failed_packages", "package_voided"],
        "n_quick": 120, "n_thorough": 3000,
        "rule": "",
        "assumptions": ASSUME_SIM,
    },
    "C18": {
        "props": ["C18"],
        "designs": [{"module": "MC_TxnCount", "constants": {"MaxSteps": "6"}, "invariants": ["Inv_TotalsExact", "Inv_HourlyExact", "Inv_UnlimitedNeverBlocked"], "properties": ["Prop_VerdictExact"], "must_reach": ["Reach_Blocked", "Reach_RestartAfterBlock"]},
                    {"module": "MC_TxnCount", "constants": {"MaxSteps": "8"}, "invariants": ["Inv_TotalsExact", "Inv_HourlyExact", "Inv_UnlimitedNeverBlocked"], "properties": ["Prop_VerdictExact"], "tier": "thorough", "timeout": 1500}],
        "profiles": [{"p_txlimit": 0.8, "p_two_clients": 0.6, "gaps": [1000, 200, 600000, 3500000, 3600000, 86400000, 1799000, 121], "p_action": 0.85, "p_txn": 0.4, "p_cancel": 0.35, "p_replace": 0.3, "p_suspend": 0.15, "max_orders": 12, "n_updates": (8, 20), "p_force": 0.1},
                     {"p_txlimit": 1.0, "gaps": [100, 500, 3600000, 1000], "p_action": 0.9, "n_strategies": (2, 2), "max_orders": 12},
                     # the second market file holds an earlier time than the first (the previous clock hour, the previous day)
                     {"p_txlimit": 1.0, "n_markets": (2, 2), "market_starts": [3000000, 100000], "gaps": [100, 1000, 60000, 600000], "p_action": 0.9, "max_orders": 12, "n_updates": (6, 12)},
                     {"p_txlimit": 1.0, "n_markets": (2, 3), "market_starts": [90000000, 4000000, 100000], "gaps": [100, 1000, 60000], "p_action": 0.9, "max_orders": 12, "n_updates": (5, 10)}],
        "extra": ["failed_packages"],
        "n_quick": 160, "n_thorough": 4000,
        "rule": "simulation runs whose publish times span hour and day boundaries, clients with transaction limits 0..5 or none (one or two clients), packages of any kind with failures; every call of the control and every handler judged against TxnCount.tla; totals against the instructions the specification says were submitted",
        "assumptions": ASSUME_SIM + ["simulation mode (simulated clock); the live half with concurrently finishing handlers is decided by the live driver"],
    },
    "C03": {
        "props": ["C03"],
        "designs": simcore_designs(["Inv_C03_OneInFlight"], ["Prop_C03_Finality"]) + simrun_designs(["Inv_C03_OneInFlight"], ["Prop_C03_Finality"], quick=False),
        "profiles": LIFECYCLE_PROFILES,
        "n_quick": 160, "n_thorough": 4000,
        "rule": "seeded random market histories x strategy scripts through the real FlumineSimulation; every _update_status call, request and recorded state judged by the C03 formulas of SimProps.tla; distinct = distinct (event sequence, final order table)",
        "assumptions": ASSUME_SIM,
    },
    "C04": {
        "props": ["C04"],
        "extra": ["early_result", "sp_conversion", "bucket_corners", "inflight_fill"],
        "designs": simcore_designs(["Inv_C04_Conserved", "Inv_C04_CompleteIff"], ["Prop_C04_MatchedMonotone"])
        + simrun_designs(["Inv_C04_Conserved", "Inv_C04_CompleteIff", "Inv_C04_FragmentsAtClose"], ["Prop_C04_MatchedMonotone"]),
        "profiles": LIFECYCLE_PROFILES + [{"p_partial_cancel": 0.8, "p_big_reduction": 0.5, "p_removal": 0.12, "p_cancel": 0.5}],
        "n_quick": 200, "n_thorough": 5000,
        "rule": "as C03; the size buckets of every order are judged whenever a strategy callback is entered",
        "assumptions": ASSUME_SIM,
    },
    "C10": {
        "props": ["C10"],
        "designs": simcore_designs(["Inv_C10_LiveTradesExact", "Inv_C10_TradeCompleteIff", "Inv_C10_NoTradePending", "Inv_C10_RcClean"])
        + simrun_designs(["Inv_C10_LiveTradesExact", "Inv_C10_TradeCompleteIff", "Inv_C10_NoTradePending"], quick=False),
        "profiles": LIFECYCLE_PROFILES + [{"p_limits": 0.9, "p_cooldown": 0.6, "p_multi_trade": 0.5, "gaps": [1, 40, 100, 120, 121, 1000, 5000], "p_ctx_trade": 0.3}],
        "n_quick": 200, "n_thorough": 5000,
        "rule": "as C03; runner contexts recounted from the orders at the end of every update, limits checked at every accepted placement",
        "assumptions": ASSUME_SIM,
    },
    "C05": {
        "props": ["C05", "M"],
        "designs": [
            {"module": "MC_SimMatch", "constants": MATCH_PLACE_Q, "invariants": C05_INV, "must_reach": ["Reach_FokFilled", "Reach_Resting"]},
            {"module": "MC_SimMatch", "constants": MATCH_PLACE_T, "invariants": C05_INV, "tier": "thorough"},
        ] + simrun_designs(["Inv_C05_FokNeverRests", "Inv_C04_Conserved"]),
        "extra": ["place_grid", "package_voided", "bucket_corners"],
        "profiles": MATCH_PROFILES,
        "n_quick": 210, "n_thorough": 6000,
        "rule": "design: every book (<=2 levels/side over 3 prices x 3 sizes) x every limit order flavour; real code: seeded random books/orders through the real stack, each placement's fragments judged against the book the placement executed against",
        "assumptions": ASSUME_SIM + ["simulated_full_match is outside the level-availability clause (fragments with time 0 are excluded)", "a limit order with MARKET_ON_CLOSE persistence filled at the starting price is no longer a limit order at that time (exempt from the limit clause)"],
    },
    "C06": {
        "props": ["C06", "M"],
        "designs": [
            {"module": "MC_SimMatch", "constants": MATCH_PLACE_Q, "invariants": C06_INV_PLACE, "must_reach": ["Reach_Resting"]},
            {"module": "MC_SimMatch", "constants": MATCH_GROUP_Q, "invariants": ["Inv_C06_Group"], "must_reach": ["Reach_GroupTwoFilled"]},
            {"module": "MC_SimMatch", "constants": MATCH_GROUP_T, "invariants": ["Inv_C06_Group"], "tier": "thorough", "timeout": 1500},
        ],
        "extra": ["place_grid", "inflight_fill"],
        "profiles": MATCH_PROFILES,
        "n_quick": 210, "n_thorough": 6000,
        "rule": "design: all traded ladders over 3 prices x {0,2,4} for two rounds on a lone order after every placement and on every group of <=2 (thorough: 3) resting orders; real code: fills judged per update against a ledger of traded volume rebuilt from the raw scenario lines",
        "assumptions": ASSUME_SIM + ["simulation_available_prices False", "traded increments are multiples of 0.02 so that the halving is exact in pence"],
    },
    "C07": {
        "props": ["C07"],
        "extra": ["inflight_fill", "cross_market", "repeated_cancel"],
        "designs": simcore_designs(["Inv_C07_NoDueLeft"]) + simrun_designs(["Inv_C07_NoDueLeft"]) + [
            # the latency machinery over a file carrying several markets (clock stepping back on re-delivered books,
            # requests for another market): 1.08 M states
            {"module": "MC_Latency", "constants": {"Redeliver": "TRUE", "Markets": '{"1.100000001", "1.100000002"}', "MaxTime": "8", "MaxReqs": "3"}, "view": "View",
             "invariants": ["TypeOK", "Inv_C07_ExecutedWhenDue", "Inv_C07_FirstUpdateBeyondLatency", "Inv_C07_NoDueLeft", "Inv_C07_RedeliveryInert", "Inv_C07_PreviousBook", "Inv_C07_Timestamps"],
             "must_reach": ["Reach_CrossMarketExec", "Reach_ClockStepsBack", "Reach_CancelExecuted"]},
            {"module": "MC_Latency", "constants": {"Redeliver": "FALSE", "Markets": '{"1.100000001", "1.100000002"}', "MaxTime": "8", "MaxReqs": "3"}, "view": "View",
             "invariants": ["TypeOK", "Inv_C07_ExecutedWhenDue", "Inv_C07_FirstUpdateBeyondLatency", "Inv_C07_NoDueLeft", "Inv_C07_RedeliveryInert", "Inv_C07_PreviousBook", "Inv_C07_Timestamps"],
             "must_reach": ["Reach_CrossMarketExec", "Reach_CancelExecuted"]},
            {"module": "MC_Latency", "constants": {"Redeliver": "TRUE", "Markets": '{"1.100000001", "1.100000002", "1.100000003"}', "MaxTime": "7", "MaxReqs": "3"}, "view": "View", "tier": "thorough", "timeout": 3000,
             "invariants": ["TypeOK", "Inv_C07_ExecutedWhenDue", "Inv_C07_FirstUpdateBeyondLatency", "Inv_C07_NoDueLeft", "Inv_C07_RedeliveryInert", "Inv_C07_PreviousBook", "Inv_C07_Timestamps"]}],
        "replay_latency": {"quick": 250, "thorough": 4000},
        "profiles": [{"p_raise": 0.06, "gaps": [1, 60, 119, 120, 121, 149, 150, 151, 169, 170, 171, 279, 280, 281, 1000, 1119, 1120, 1121, 5000], "p_inplay": 0.25, "bet_delays": [1, 2, 5, 12], "p_action": 0.7, "p_cancel": 0.35},
                     {"n_markets": (2, 2), "event_processing": True, "p_inplay": 0.2, "p_action": 0.7},
                     # requests for another market of the event / of a file carrying several markets (where the clock steps
                     # back to the publish time of every re-delivered book)
                     {"n_markets": (2, 3), "event_processing": True, "p_cross": 0.5, "p_action": 0.7, "p_inplay": 0.2},
                     {"n_markets": (2, 3), "n_updates": (4, 9), "p_close": 0.5, "gaps": [1, 100, 500, 1000, 5000], "shared_file": True, "p_cross": 0.5, "market_starts": [0, 300, 700], "p_action": 0.7},
                     {"latencies": [{"place_latency": 0.001, "cancel_latency": 0.001, "update_latency": 0.001, "replace_latency": 0.001}, {"place_latency": 1.0, "cancel_latency": 0.5, "update_latency": 2.0, "replace_latency": 0.0}], "gaps": [1, 2, 500, 999, 1000, 1001, 2000, 2001]}],
        "n_quick": 300, "n_thorough": 7500,
        "rule": "publish-time gaps drawn around each configured latency (L-1, L, L+1 ms) and bet delay; every executed package must be due and none due may survive its market's update; delay charged = latency(kind) + bet delay at request time",
        "assumptions": ASSUME_SIM,
    },
    "C09": {
        "props": ["C09", "M"],
        "designs": simcore_designs(["Inv_C09_RemovedComplete", "Inv_C04_Conserved"]) + simrun_designs(["Inv_C09_RemovedComplete", "Inv_C04_Conserved"]),
        "profiles": [{"p_removal": 0.15, "p_sp_order": 0.25, "p_moc_pers": 0.2, "p_inplay": 0.15, "p_partial_cancel": 0.6, "p_cancel": 0.4},
                     {"p_removal": 0.12, "n_markets": (2, 2), "event_processing": True},
                     {"p_removal": 0.12, "n_markets": (2, 2)}],
        "extra": ["two_market_removal", "early_result", "removal_variants"],
        "n_quick": 180, "n_thorough": 5000,
        "rule": "removals with factors None/0/below/at/above 2.5 up to 99 at random points of random histories (orders in every state), plus the same selection+factor removed in two markets of one run (sequential and event-grouped)",
        "assumptions": ASSUME_SIM + ["price reduction checked within half a cent of p*(1-af/100) (floating-point rounding of ties is not decided)"],
    },
    "C08": {
        "props": ["C08", "M"],
        "designs": [{"module": "MC_Settlement", "constants": {"Prices": "{101, 200, 350, 5000}", "Stakes": "{100, 236}"},
                     "invariants": ["Inv_SideSymmetry", "Inv_ZeroIfUnmatchedOrRemoved", "Inv_LoserLosesStake", "Inv_WinnerAtLeastLoser", "Inv_DeadHeatReduces", "Inv_LineEvenMoney"]}]
        # the lifecycle composed with the rules: whatever the closed model leaves at its close settles as the rules say
        + simrun_designs(["Inv_C08_UnmatchedPaysNothing", "Inv_C08_RemovedPaysNothing", "Inv_C08_LossBounded", "Inv_C04_FragmentsAtClose"]),
        "profiles": [{"p_close": 1.0, "p_full_match": 0.3, "p_trade": 0.9, "p_removal": 0.08, "p_sp_order": 0.2, "p_inplay": 0.2, "center": (20, 200), "sizes": [2.0, 3.0, 0.5, 10.0, 2.36, 25.0]},
                     {"p_close": 1.0, "p_trade": 0.9, "n_strategies": (2, 2), "market_types": ["WIN", "EACH_WAY", "EACH_WAY", "PLACE"], "center": (20, 160)}],
        "extra": ["settlement", "handicap_lines", "closure"],
        "n_quick": 160, "n_thorough": 5000,
        "rule": "settlement rules (Settlement.tla, integer arithmetic) vs order.profit after the real close: an enumerated family (market type x results incl. dead heats x prices x sizes, paired back/lay with identical fills, line results below/equal/above) plus random runs with real fills, removals and SP",
        "assumptions": ASSUME_SIM + ["tolerance 0.005 x size matched (x(1+1/divisor) for each-way) + 0.01: the code settles on the 2-dp average price", "dead heats in each-way and multi-winner markets are outside the statement (one-winner markets only)", "prices <= 50.0 and sizes <= 50.00 so that all products stay below 2^31"],
    },
    "C20": {
        "props": ["C20"],
        "designs": [{"module": "MC_Closure", "constants": {"Markets": '{"m1", "m2"}', "Strategies": '{"A", "B", "C"}', "Subscribed": "<- SubDef", "Clients": '{"c1", "c2"}', "Live": "FALSE", "MaxSteps": "6"},
                     "invariants": ["Inv_CallbackOncePerClosingUpdate", "Inv_SummaryPerClientPerClose", "Inv_ClosedFlag", "Inv_ReopenResetsFlags", "Inv_StateReleased", "Inv_RemovedStateReleased"], "must_reach": ["Reach_Reclosed"]},
                    {"module": "MC_Closure", "constants": {"Markets": '{"m1", "m2"}', "Strategies": '{"A", "B", "C"}', "Subscribed": "<- SubDef", "Clients": '{"c1", "c2"}', "Live": "TRUE", "MaxSteps": "6"},
                     "invariants": ["Inv_CallbackOncePerClosingUpdate", "Inv_ReopenResetsFlags", "Inv_LiveRemovesOnlyAfterHour", "Inv_RemovedStateReleased"], "must_reach": ["Reach_Removed"]}]
        + simrun_designs(["Inv_C20_Released", "Inv_C04_CompleteIff"]),
        "profiles": [{"p_close": 1.0, "n_markets": (1, 2), "n_updates": (3, 8)}],
        "extra": ["closure", "handicap_lines", "settlement"],
        "n_quick": 80, "n_thorough": 2000,
        "rule": "closing-update patterns (repeated CLOSED, close-data-close, first update CLOSED, two markets in either order, strategies subscribed / not subscribed / empty filter, two clients) through the real simulation; callbacks, cleared events and released state counted per closing update",
        "assumptions": ASSUME_SIM + ["cleared-orders / cleared-market events are counted per closing update processed (reading decision, DESIGN.md section 5)", "the live half (closure through the handler queue, removal after an hour) is decided by the live driver (checks/livecheck.py)"],
    },
    "C15": {
        "props": ["C15"],
        "designs": simcore_designs(["Inv_C15_LiveListComplete", "Inv_C15_LiveInBlotter"], ["Prop_C15_RemovedOnlyAfterComplete"])
        + simrun_designs(["Inv_C15_LiveListComplete"], quick=False),
        # two clients (orders and their replacements of the second client must stay in that client's views)
        "profiles": LIFECYCLE_PROFILES + [{"p_two_clients": 1.0, "two_clients_unlimited": True, "p_replace": 0.5, "p_cancel": 0.2, "n_strategies": (1, 2)}],
        "n_quick": 200, "n_thorough": 5000,
        "rule": "as C03; blotter membership / live list judged at the end of every update and on every step",
        "assumptions": ASSUME_SIM,
    },
}
