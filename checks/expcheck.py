"""C16: reported exposure equals the true worst case.
E1: MC_Exposure (closed form = brute force, exhaustively).  Binding: positions built from REAL
order objects in a REAL Blotter; get_exposures / selection_exposure / market_exposure are called
and TLC (ExpTrace.tla) judges the returned figures against Exposure!Brute*."""
import os
import sys
import json
import time
import random
import shutil
import itertools
import collections

ROOT = os.path.dirname(os.path.dirname(os.path.abspath(__file__)))
sys.path.insert(0, ROOT)

from harness import tlc, evidence  # noqa: E402
from checks.simcheck import run_design  # noqa: E402
from checks.runcheck import validate_cases  # noqa: E402


def pence(x):
    return int(round(float(x) * 100))


class MB:  # the two market book attributes market_exposure reads
    def __init__(self, nactive, nwin):
        self.number_of_active_runners = nactive
        self.number_of_winners = nwin


def build_case(cid, spec, strategy, client):
    """spec: {"orders": [(sel, dict)], "nactive":, "nwin":, "neworder": (sel, dict) or None}"""
    from flumine.markets.blotter import Blotter
    from flumine.order.trade import Trade
    from flumine.order.order import OrderStatus
    from flumine.order.ordertype import LimitOrder, LimitOnCloseOrder, MarketOnCloseOrder
    st_map = {"PENDING": OrderStatus.PENDING, "EXECUTABLE": OrderStatus.EXECUTABLE, "CANCELLING": OrderStatus.CANCELLING,
              "UPDATING": OrderStatus.UPDATING, "REPLACING": OrderStatus.REPLACING, "COMPLETE": OrderStatus.EXECUTION_COMPLETE,
              "VIOLATION": OrderStatus.VIOLATION, "EXPIRED": OrderStatus.EXPIRED}
    blotter = Blotter("1.1")

    def mk(sel, d, place=True):
        trade = Trade("1.1", sel, 0, strategy)
        if d["type"] == "LIMIT":
            ot = LimitOrder(price=d["price"] / 100.0, size=d["size"] / 100.0, price_ladder_definition=d["lad"])
        elif d["type"] == "LIMIT_ON_CLOSE":
            ot = LimitOnCloseOrder(liability=d["size"] / 100.0, price=d["price"] / 100.0)
        else:
            ot = MarketOnCloseOrder(liability=d["size"] / 100.0)
        o = trade.create_order(d["side"], ot)
        o.update_client(client)
        o.status = st_map[d["status"]]
        o.complete = o._is_complete()
        o.simulated.size_matched = d["m"] / 100.0
        o.simulated.average_price_matched = d["avg"] / 100.0
        o.simulated.size_cancelled = d["can"] / 100.0
        if d["m"]:
            o.simulated.matched = [[0, d["avg"] / 100.0, d["m"] / 100.0]]
        if place:
            o.id = "%s_%s" % (cid, len(blotter))
            blotter[o.id] = o
        return o
    bysel, objs = collections.OrderedDict(), {}
    for i, (sel, d) in enumerate(spec["orders"]):
        o = mk(sel, d)
        lab = "o%d" % (i + 1)
        bysel.setdefault(str(sel), collections.OrderedDict())[lab] = rec(d)
        objs[(str(sel), lab)] = o
    code = {"sel": {}}
    for sel, pos in bysel.items():
        lookup = ("1.1", int(sel), 0)
        e = blotter.get_exposures(strategy, lookup)
        ent = {"win": pence(e["worst_possible_profit_on_win"]), "lose": pence(e["worst_possible_profit_on_lose"]),
               "exposure": pence(blotter.selection_exposure(strategy, lookup)), "excl": {}}
        for lab in pos:
            ex = blotter.get_exposures(strategy, lookup, exclusion=objs[(sel, lab)])
            ent["excl"][lab] = {"win": pence(ex["worst_possible_profit_on_win"]), "lose": pence(ex["worst_possible_profit_on_lose"])}
        code["sel"][sel] = ent
    new = {"sel": "", "o": {}}
    code["neworder"] = {"win": 0, "lose": 0}
    no = None
    if spec.get("neworder"):
        sel, d = spec["neworder"]
        no = mk(sel, d, place=False)
        e = blotter.get_exposures(strategy, ("1.1", sel, 0), new_order=no)
        # a prospective new order is counted in full whatever status it carries (e.g. VIOLATION when
        # a refused order is submitted again): it is "added to the book" as an acknowledged order
        new = {"sel": str(sel), "o": dict(rec(d), status="EXECUTABLE", cplt=False)}
        code["neworder"] = {"win": pence(e["worst_possible_profit_on_win"]), "lose": pence(e["worst_possible_profit_on_lose"])}
    code["market"] = pence(blotter.market_exposure(strategy, MB(spec["nactive"], spec["nwin"])))
    return {"id": cid, "bysel": bysel, "nactive": spec["nactive"], "nwin": spec["nwin"], "neworder": new, "code": code}


def rec(d):
    return {"side": d["side"], "type": d["type"], "lad": d["lad"], "status": d["status"], "cplt": d["status"] in ("COMPLETE", "VIOLATION", "EXPIRED"),
            "size": d["size"], "m": d["m"], "can": d["can"], "lap": 0, "void": 0, "price": d["price"], "avg": d["avg"]}


STATUSES = ["PENDING", "EXECUTABLE", "CANCELLING", "UPDATING", "REPLACING", "COMPLETE", "VIOLATION", "EXPIRED"]


def order_space_small():
    out = []
    for side in ("BACK", "LAY"):
        for lad in ("CLASSIC", "FINEST", "LINE_RANGE"):
            for status in STATUSES:
                # (matched sizes whose binary value sits just below the decimal one: 0.29, 4.35, 8.20, 19.99)
                for m, rem in ((0, 300), (200, 300), (500, 0), (236, 14), (435, 565), (29, 0), (1999, 1), (820, 180)):
                    price = 15050 if lad == "LINE_RANGE" else 350
                    out.append({"side": side, "type": "LIMIT", "lad": lad, "status": status, "size": m + rem, "m": m, "can": 0, "price": price, "avg": 320 if m else 0})
        for typ in ("LIMIT_ON_CLOSE", "MARKET_ON_CLOSE"):
            for status in ("PENDING", "EXECUTABLE", "COMPLETE"):
                out.append({"side": side, "type": typ, "lad": "CLASSIC", "status": status, "size": 1000, "m": 0, "can": 0, "price": 300, "avg": 0})
    return out


def random_order(rnd):
    side = rnd.choice(["BACK", "LAY"])
    typ = rnd.choice(["LIMIT"] * 6 + ["LIMIT_ON_CLOSE", "MARKET_ON_CLOSE"])
    lad = rnd.choice(["CLASSIC"] * 4 + ["FINEST", "LINE_RANGE"]) if typ == "LIMIT" else "CLASSIC"
    status = rnd.choice(STATUSES + ["EXECUTABLE", "COMPLETE", "EXECUTABLE"])
    size = rnd.choice([200, 500, 236, 1000, 50, 2500, 1, 435, 29, 1999, 820, 460, 230])
    if typ != "LIMIT":
        return {"side": side, "type": typ, "lad": lad, "status": status, "size": size, "m": 0, "can": 0, "price": rnd.choice([150, 300, 1000]), "avg": 0}
    m = rnd.choice([0, 0, size, size, size // 2, size // 3])
    can = rnd.choice([0, 0, 0, (size - m) // 2]) if status != "PENDING" else 0
    price = rnd.choice([101, 150, 236, 350, 1000, 5000]) if lad != "LINE_RANGE" else rnd.choice([15050, 5050])
    avg = (price + rnd.choice([0, 0, 10, -10, 33])) if m else 0
    if avg and avg < 101:
        avg = 101
    return {"side": side, "type": typ, "lad": lad, "status": status, "size": size, "m": m, "can": can, "price": price, "avg": avg}


def run_check(tier, seed):
    t0 = time.time()
    designs = [
        {"module": "MC_Exposure", "constants": {"MaxOrders": "2", "Mode": '"selection"'}, "invariants": ["Inv_ReportedEqualsBrute", "Inv_PendingAndRefusedLeftOut", "Inv_NewOrderIsAddition"]},
        {"module": "MC_Exposure", "constants": {"MaxOrders": "1", "Mode": '"market"'}, "invariants": ["Inv_MarketReportedEqualsBrute"], "tier": "thorough", "timeout": 1200},
    ]
    design = run_design(designs, tier)
    if design.get("failed"):
        print("SPEC-ERROR property=C16 %s" % json.dumps(design["failed"])[:3000])
        return 2
    from flumine import config as fconfig, BaseStrategy, clients
    saved = fconfig.simulated
    fconfig.simulated = True
    cases = []
    try:
        strategy = BaseStrategy(market_filter={}, name="S")
        client = clients.SimulatedClient(username="c1")
        space = order_space_small()
        # exhaustive: every single order, every pair on one selection (grid), with every exclusion
        k = 0
        for d in space:
            k += 1
            cases.append(build_case("s%d" % k, {"orders": [(11, d)], "nactive": 3, "nwin": 1, "neworder": (11, space[(k * 7) % len(space)])}, strategy, client))
        pair_space = [d for d in space if d["status"] in ("EXECUTABLE", "COMPLETE", "PENDING", "CANCELLING") and d["lad"] != "FINEST"]
        pairs = list(itertools.product(pair_space, pair_space))
        rnd = random.Random(seed)
        if tier == "quick":
            pairs = rnd.sample(pairs, 600)
        for a, b in pairs:
            k += 1
            cases.append(build_case("p%d" % k, {"orders": [(11, a), (11, b)], "nactive": rnd.choice([2, 3, 8]), "nwin": rnd.choice([1, 1, 2, 3]), "neworder": None}, strategy, client))
        # random: up to 4 orders on up to 4 selections
        n = 1500 if tier == "quick" else 20000
        for i in range(n):
            nsel = rnd.randint(1, 4)
            orders = []
            for s in range(nsel):
                for _ in range(rnd.randint(1, 4 if tier == "thorough" else 3)):
                    orders.append((11 + s, random_order(rnd)))
            rnd.shuffle(orders)
            neworder = (11 + rnd.randrange(nsel + 1), dict(random_order(rnd), status="EXECUTABLE", m=0, avg=0, can=0)) if rnd.random() < 0.5 else None
            cases.append(build_case("r%d" % i, {"orders": orders, "nactive": rnd.choice([nsel, nsel, nsel + 1, nsel + 3, max(1, nsel - 1)]), "nwin": rnd.choice([1, 1, 1, 2, 3]), "neworder": neworder}, strategy, client))
    finally:
        fconfig.simulated = saved
    wd = tlc.workdir("c16")
    res = {"viol": [], "states": 0, "errors": [], "drift": []}
    try:
        for b0 in range(0, len(cases), 4000):
            r = validate_cases(cases[b0:b0 + 4000], ["C16"], wd, module="ExpTrace")
            res["viol"] += r["viol"]
            res["states"] += r["states"]
            res["errors"] += r["errors"]
    finally:
        shutil.rmtree(wd, ignore_errors=True)
    from checks.runcheck import finish
    for c in cases:
        c["kind"] = "exposure"
    samples = [cases[0], cases[-1]]
    return finish("C16", tier, seed, design, cases, res, samples, t0,
                  rule="every single order and (quick: 600 sampled / thorough: all) pairs of the attribute grid (side x ladder x status x matched/remaining split, SP types) on one selection with every exclusion, plus random positions of <=4x4 orders; real Blotter.get_exposures / selection_exposure / market_exposure vs brute force over fill subsets and winner sets",
                  assumptions=["tolerance 0.01 per order in the position (the code rounds matched and unmatched exposure to 2 dp)", "starting-price orders count with their liability (as the property states)", "admissible winner sets: min(number_of_winners, runners) winners among the runners with bets and the active runners without"])
