"""C19: customer order references are unique, valid and round-trip (OrderRefs.tla)."""
import os
from unittest import mock
import sys
import json
import time
import shutil
import threading
import datetime

ROOT = os.path.dirname(os.path.dirname(os.path.abspath(__file__)))
sys.path.insert(0, ROOT)

from harness import tlc  # noqa: E402
from checks.simcheck import run_design  # noqa: E402
from checks.runcheck import validate_cases, finish  # noqa: E402


def codes(s):
    return [ord(c) if ord(c) < 2 ** 31 else 0 for c in s]


def limbs(idtext):
    n = int(idtext)
    return [n // 10 ** 9, n % 10 ** 9]


def run_check(tier, seed):
    t0 = time.time()
    designs = [{"module": "MC_OrderRefs", "constants": {"Alphabet": "{48, 97, 45}", "BadChars": "{32, 33, 64}"},
                "invariants": ["Inv_ValidSepRoundTrips", "Inv_ValidSepValidRef"], "must_reach": ["Reach_BadLengthBreaks", "Reach_EmptySepBreaks"]}]
    design = run_design(designs, tier)
    if design.get("failed"):
        print("SPEC-ERROR property=C19 %s" % json.dumps(design["failed"])[:3000])
        return 2
    from flumine import BaseStrategy, clients, config as fconfig
    from flumine.order.trade import Trade
    from flumine.order.order import BetfairOrder
    from flumine.order.ordertype import LimitOrder
    from flumine.order.process import process_current_orders
    from flumine.markets.markets import Markets
    from flumine.markets.market import Market
    from flumine.strategy.strategy import Strategies
    from flumine.simulation.utils import SimulatedDateTime
    from betfairlightweight.resources.bettingresources import CurrentOrders
    # (several names made of non-ASCII characters only, and pairs differing only in such characters)
    names = ["", "a", "strategy", "Ünïcødé-ストラテジー", "x" * 200, "with space", "S-1", "name\twith\ncontrol", "€" * 40, "mixedCASE_123",
             "突破", "均值回归", "стратегия", "strat-é", "strat-è"]
    seps_valid = ["-", ".", "_", "+", "*", ":", ";", "~", "a", "Z", "0", "9"]
    strategies = []
    for n in names:
        class S(BaseStrategy):
            pass
        strategies.append(S(market_filter={}, name=n))
    # second instance (same strategy names) that receives the references from the "exchange"
    def second_instance(only=None):
        sts = Strategies()
        for n in (names if only is None else only):
            class S(BaseStrategy):
                pass
            s2 = S(market_filter={}, name=n)
            sts(s2, None, mock.Mock())          # the way add_strategy registers it
        return sts
    cases, all_ids = [], []
    client = clients.BetfairClient(betting_client=None) if False else clients.SimulatedClient(username="c1")
    n_per = 30 if tier == "quick" else 400

    class FakeFlumine:
        def __init__(self):
            self.markets = Markets()

        def log_control(self, ev):
            pass

    def resolve(refs_batch, sts, later=()):
        """push the references through process_current_orders of a fresh instance; `later`: strategies that are
        added only after a first order-stream update has been processed (updates for them are ignored until
        then and adopted afterwards)"""
        fl = FakeFlumine()

        def add_market(market_id, market_book):
            m = Market(fl, market_id, market_book)
            fl.markets.add_market(market_id, m)
            return m
        raw = {"currentOrders": [], "moreAvailable": False}
        for k, (ref, sel) in enumerate(refs_batch):
            raw["currentOrders"].append({
                "betId": str(900000 + k), "marketId": "1.999", "selectionId": sel, "handicap": 0.0,
                "priceSize": {"price": 2.0, "size": 2.0}, "bspLiability": 0.0, "side": "BACK", "status": "EXECUTABLE",
                "persistenceType": "LAPSE", "orderType": "LIMIT", "placedDate": "2023-11-14T22:00:00.000Z",
                "averagePriceMatched": 0.0, "sizeMatched": 0.0, "sizeRemaining": 2.0, "sizeLapsed": 0.0, "sizeCancelled": 0.0, "sizeVoided": 0.0,
                "customerOrderRef": ref, "customerStrategyRef": "host", "regulatorCode": "x"})
        co = CurrentOrders(**raw)
        co.client = client

        class Ev:
            event = [co]
        process_current_orders(fl.markets, sts, Ev, lambda e: None, add_market)
        if later:
            for n in later:
                class S2(BaseStrategy):
                    pass
                sts(S2(market_filter={}, name=n), None, mock.Mock())
            process_current_orders(fl.markets, sts, Ev, lambda e: None, add_market)
        out = {}
        mk = fl.markets.markets.get("1.999")
        if mk is not None:
            for o in mk.blotter:
                out[o.bet_id] = (o.trade.strategy.name, o.id)
        return out
    saved_sim = fconfig.simulated
    try:
        for mode in ("real_clock", "simulated_clock"):
            sdt = SimulatedDateTime()
            if mode == "simulated_clock":
                sdt.__enter__()
                sdt(datetime.datetime(2023, 11, 14, 22, 0, 0))
            try:
                for sep in seps_valid:
                    batch, refs = [], []
                    for si, st in enumerate(strategies):
                        for k in range(max(1, n_per // len(strategies))):
                            trade = Trade("1.999", 100 + len(batch), 0, st)
                            order = trade.create_order("BACK", LimitOrder(2.0, 2.0), sep=sep)
                            batch.append((order.customer_order_ref, 100 + len(batch) - 0))
                            refs.append((order, st, sep))
                            all_ids.append(order.id)
                    if seps_valid.index(sep) % 2:      # the second instance gets half of its strategies after the first update
                        res = resolve(batch, second_instance(only=names[::2]), later=names[1::2])
                    else:
                        res = resolve(batch, second_instance())
                    recs = []
                    for k, (order, st, sp) in enumerate(refs):
                        got = res.get(str(900000 + k), ("<not adopted>", ""))
                        recs.append({"ref": codes(order.customer_order_ref), "hash": codes(st.name_hash), "sep": codes(sp), "idtext": codes(order.id),
                                     "strategy": codes(st.name)[:60], "resolved_strategy": codes(got[0])[:60], "resolved_id": codes(got[1])})
                    cases.append({"kind": "refs", "id": "refs_%s_%s" % (mode, ord(sep)), "refs": recs})
            finally:
                if mode == "simulated_clock":
                    sdt.__exit__(None, None, None)
        # uniqueness: tight loops and several threads, real and simulated clock
        n_loop = 20000 if tier == "quick" else 100000
        st = strategies[2]

        def make(n, out):
            trade = Trade("1.999", 1, 0, st)
            for _ in range(n):
                out.append(BetfairOrder(trade=trade, side="BACK", order_type=LimitOrder(2.0, 2.0)).id)
        ids = list(all_ids)
        make(n_loop, ids)
        threads, outs = [], [[] for _ in range(8)]
        for k in range(8):
            th = threading.Thread(target=make, args=(n_loop // 8, outs[k]))
            threads.append(th)
            th.start()
        for th in threads:
            th.join()
        for o in outs:
            ids += o
        sdt = SimulatedDateTime()
        sdt.__enter__()
        sdt(datetime.datetime(2023, 11, 14, 22, 0, 0))
        # as in a simulation run: config.simulated set, the clock frozen at the publish time of the update being
        # processed, moving forward within a market and BACK when the next market (or event group) starts
        # again at times already visited
        from flumine import config as fconfig
        saved_sim = fconfig.simulated
        fconfig.simulated = True
        try:
            make(n_loop // 2, ids)
            t1 = datetime.datetime(2023, 11, 14, 22, 0, 0)
            for rep in range(3):
                for step in (0, 1, 250, 1000, 1, 0):
                    sdt(t1 + datetime.timedelta(milliseconds=step))
                    make(40, ids)
        finally:
            fconfig.simulated = saved_sim
            sdt.__exit__(None, None, None)
        cases.append({"kind": "unique", "id": "unique_all", "ids": [limbs(i) for i in ids]})
        # ids of every order of whole simulation runs, replacements included (several orders re-priced in one
        # package, at one simulated instant)
        from checks import scenarios as _sc
        from harness.simdrv import run_scenario as _run
        sim_ids = []
        import copy as _copy
        both = []
        for scn in [x for x in _sc.family_failed_packages(tier, seed) if "replace" in str(x["strategies"][0]["script"])][:3]:
            ok = _copy.deepcopy(scn)            # the same multi-order replace packages with the market staying open: every replacement is created
            ok["id"] += "_open"
            for u in ok["markets"][0]["updates"]:
                u["status"] = "OPEN"
            both.append(ok)
        for scn in _sc.family_replace_package(tier, seed) + _sc.family_failed_packages(tier, seed)[:6] + both:
            tr_ = _run(scn, snapshots=False)
            sim_ids += [o.id for o in tr_["rec"].orders.values()]
        cases.append({"kind": "unique", "id": "unique_sim_runs", "ids": [limbs(i) for i in sim_ids]})
        # separators: every 1-char string over ASCII + samples, lengths 0 and 2
        seps = []
        cands = [chr(c) for c in range(0, 128)] + ["é", "€", "ス", "", "--", "a-", "~~", "  "]
        # every valid character followed / preceded by a line end, blank or NUL (what a settings file read
        # without stripping yields), and all pairs of valid characters
        valid1 = [chr(c) for c in range(33, 127) if chr(c).isalnum() or chr(c) in "-._+*:;~"]
        for ch in valid1:
            cands += [ch + "\n", "\n" + ch, ch + "\r", ch + " ", ch + "\x00", ch + "\r\n"]
        cands += [a + b for a in "-._+*:;~aZ0" for b in "-._+*:;~aZ0"]
        for s in cands:
            trade = Trade("1.999", 1, 0, st)
            order = trade.create_order("BACK", LimitOrder(2.0, 2.0))
            try:
                order.sep = s
                acc = order.sep == s
            except ValueError:
                acc = False
            acc2 = True
            try:
                trade.create_order("BACK", LimitOrder(2.0, 2.0), sep=s)
            except ValueError:
                acc2 = False
            seps.append({"sep": codes(s), "accepted": bool(acc and acc2)})
        cases.append({"kind": "seps", "id": "seps", "seps": seps})
    finally:
        fconfig.simulated = saved_sim
    wd = tlc.workdir("c19")
    try:
        res = validate_cases(cases, ["C19"], wd, module="RefTrace")
        res["drift"] = []
    finally:
        shutil.rmtree(wd, ignore_errors=True)
    samples = [{"ref": "".join(chr(c) for c in cases[0]["refs"][0]["ref"]), "strategy_name_codes": cases[0]["refs"][0]["strategy"][:10], "n_refs_in_case": len(cases[0]["refs"])},
               {"unique_ids": len(cases[-2]["ids"]), "first": cases[-2]["ids"][0]}, {"separators_tried": len(cases[-1]["seps"]), "accepted": sum(1 for s in cases[-1]["seps"] if s["accepted"])}]
    return finish("C19", tier, seed, design, cases, res, samples, t0,
                  rule="references of real orders for 10 strategy names (empty, unicode, 200 chars, control chars) x 12 valid separators under the real and the simulated clock, each pushed through process_current_orders of a second instance; %d ids created in tight loops, from 8 threads and under the simulated clock checked for uniqueness; every 1-character ASCII string plus unicode and length 0/2 strings tried as separator" % len(cases[-2]["ids"]),
                  assumptions=["distinct strategy names (the framework warns on duplicates)", "uniqueness relies on uuid1's monotonic timestamp within one process (what the code uses)"])
