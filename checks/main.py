import os
import sys
import argparse

ROOT = os.path.dirname(os.path.dirname(os.path.abspath(__file__)))
sys.path.insert(0, ROOT)


def main():
    ap = argparse.ArgumentParser()
    ap.add_argument("prop")
    ap.add_argument("--tier", default=os.environ.get("VERIF_TIER", "quick"))
    ap.add_argument("--replay", default=None)
    a = ap.parse_args()
    seed = int(os.environ.get("VERIF_SEED", "1"))
    tier = "thorough" if a.tier == "thorough" else "quick"
    os.environ.setdefault("PYTHONHASHSEED", "0")
    from checks import props
    try:
        if a.prop == "C02":
            from checks.txcheck import run_check
            rc = run_check(tier, seed)
        elif a.prop in props.SIM:
            from checks.simcheck import run_check
            rc = run_check(a.prop, props.SIM[a.prop], tier, seed, replay=a.replay)
        elif a.prop == "C19":
            from checks.refcheck import run_check
            rc = run_check(tier, seed)
        elif a.prop == "C17":
            from checks.laddercheck import run_check
            rc = run_check(tier, seed)
        elif a.prop == "C16":
            from checks.expcheck import run_check
            rc = run_check(tier, seed)
        elif a.prop in ("C13", "C14"):
            from checks.runcheck import run_check
            rc = run_check(a.prop, tier, seed)
        else:
            print("MACHINERY-ERROR unknown property %s" % a.prop)
            rc = 2
    except Exception as e:  # machinery failure is never a verdict
        import traceback
        traceback.print_exc()
        print("MACHINERY-ERROR property=%s %s: %s" % (a.prop, type(e).__name__, e))
        rc = 2
    sys.exit(rc)


if __name__ == "__main__":
    main()
