import os
import sys
import time
import argparse

ROOT = os.path.dirname(os.path.dirname(os.path.abspath(__file__)))
sys.path.insert(0, ROOT)


LIVE_RULE = {
    "C11": "random schedules of {requests, pooled execution thunks with scripted outcomes, exchange-side fills / lapses, snapshots taken, kept and processed late / twice / stale, a snapshot processed between the exchange applying a request and the response, restart into a new framework instance} on the real Flumine + BetfairExecution against the exchange double; convergence judged at quiescent points, adoption at restart",
    "C12": "TLC-style fault enumeration replayed on the real BetfairExecution: every assignment of report outcomes to packages of 1..2 (thorough 3) orders of each kind, cancel reports permuted / missing, API errors on attempts 1..4 (applied or not at the exchange), an order completing between request and response, each with and without a stream update during the call; plus random schedules",
}
LIVE_ASSUME = ["the exchange double is a model of Betfair's documented request semantics (replace = cancel then placement under the same customer reference, cancels not rolled back, BET_TAKEN_OR_LAPSED only for complete bets, repeated customerRef not applied twice)",
               "handler granularity: one pooled execution (API call + response handling) is one step; a stream update between the exchange applying the request and the response is produced by processing a snapshot re-entrantly inside the double",
               "Betdaq execution is outside C12 by the property's own text"]


def is_live_replay(path):
    if not path:
        return False
    import json
    with open(path) as f:
        return "live_scenario" in json.load(f)


def livecheck_designs(prop):
    return [{"module": "MC_LiveRun", "constants": {"MaxSteps": "14"}, "invariants": ["Inv_NoneStranded", "Inv_ConvergedAtQuiescence", "Inv_RetriesBounded"], "must_reach": ["Reach_CompleteByStream"], "view": "View"}]


def main():
    ap = argparse.ArgumentParser()
    ap.add_argument("prop")
    ap.add_argument("--tier", default=os.environ.get("VERIF_TIER", "quick"))
    ap.add_argument("--replay", default=None)
    a = ap.parse_args()
    seed = int(os.environ.get("VERIF_SEED", "1"))
    tier = "thorough" if a.tier == "thorough" else "quick"
    os.environ.setdefault("PYTHONHASHSEED", "0")
    from checks import props
    try:
        if a.prop == "C02":
            from checks.txcheck import run_check
            rc = run_check(tier, seed)
        elif a.prop in props.SIM and a.prop != "C12":
            from checks.simcheck import run_check
            live_replay = is_live_replay(a.replay)
            from checks import bdqcheck
            bdq_replay = a.prop in ("C03", "C15") and bdqcheck.is_bdq_replay(a.replay)
            rc = 0 if (live_replay or bdq_replay) else run_check(a.prop, props.SIM[a.prop], tier, seed, replay=a.replay)
            if rc != 2 and a.prop in ("C03", "C15") and (bdq_replay or not a.replay):
                # BETDAQ half: the other exchange order class (BetdaqOrder, BetdaqExecution, polled order stream)
                import json
                out = bdqcheck.run_check(tier, seed, replay=a.replay if bdq_replay else None, prop=a.prop)
                if isinstance(out, int):
                    rc = out
                elif bdq_replay:
                    rc = out["rc"]
                else:
                    path = os.path.join(ROOT, "evidence", "%s.json" % a.prop)
                    with open(path) as f:
                        ev = json.load(f)
                    ev["coverage"]["betdaq"] = {"design_runs": out["design"]["runs"], "model_behaviours_replayed_into_impl": out["e2"], "traces": out["traces"], "steps": out["steps"],
                                                "activity": out["activity"], "drift": out["drift"], "violations_unexplained": len(out["unexplained"]),
                                                "known_findings_hit": {k: len(v) for k, v in out["explained"].items()}, "sample": out["sample"]}
                    ev["coverage"]["traces_validated_against_impl"] += out["traces"]
                    ev["coverage"]["states"] += out["steps"] + out["design"]["states"]
                    ev["coverage"]["transitions"] += out["steps"] + out["design"]["transitions"]
                    ev["violations"] = ev.get("violations", 0) + len(out["unexplained"])
                    ev["wall_s"] = round(ev["wall_s"] + time.time() - out["t0"], 2)
                    with open(path, "w") as f:
                        json.dump(ev, f, indent=1, default=str)
                    print(a.prop + " %s (BETDAQ half): design %d states, %d traces (%d steps) validated, %d violations, %d known-finding hits, %d model behaviours replayed (%d differ), drift %d" % (
                        tier, out["design"]["states"], out["traces"], out["steps"], len(out["unexplained"]), sum(len(v) for v in out["explained"].values()), out["e2"]["behaviours"], out["e2"]["mismatching"], out["drift"]))
                    rc = max(rc, out["rc"])
            if rc != 2 and a.prop in ("C03", "C10", "C15", "C20") and (live_replay or (not a.replay)):
                # live half: the same formulas on traces of the real Flumine against the exchange double
                import json
                from checks import livecheck
                out = livecheck.run_check(a.prop, tier, seed, designs=[], replay=a.replay if live_replay else None)
                if isinstance(out, int):
                    rc = out
                elif live_replay:
                    rc = out["rc"]
                else:
                    path = os.path.join(ROOT, "evidence", "%s.json" % a.prop)
                    with open(path) as f:
                        ev = json.load(f)
                    ev["coverage"]["live"] = {"model_behaviours_replayed_into_impl": out.get("e2", {}), "traces": len(out["traces"]), "steps": out["res"]["states"], "activity": out["activity"],
                                              "violations_unexplained": len(out["unexplained"]), "known_findings_hit": {k: len(v) for k, v in out["explained"].items()}}
                    ev["coverage"]["traces_validated_against_impl"] += len(out["traces"])
                    ev["coverage"]["states"] += out["res"]["states"]
                    ev["coverage"]["transitions"] += out["res"]["states"]
                    ev["violations"] = ev.get("violations", 0) + len(out["unexplained"])
                    ev["wall_s"] = round(ev["wall_s"] + time.time() - out["t0"], 2)
                    with open(path, "w") as f:
                        json.dump(ev, f, indent=1, default=str)
                    print("%s %s (live half): %d live traces (%d steps) validated, %d violations, %d known-finding hits" % (a.prop, tier, len(out["traces"]), out["res"]["states"], len(out["unexplained"]), sum(len(v) for v in out["explained"].values())))
                    rc = max(rc, out["rc"])
        elif a.prop in ("C11", "C12"):
            from checks import livecheck
            rc_sim, sim_cov = 0, None
            live_replay = is_live_replay(a.replay)
            if a.prop == "C12" and not live_replay:     # the simulated execution half
                import json
                from checks.simcheck import run_check as sim_run
                rc_sim = sim_run("C12", props.SIM["C12"], tier, seed, replay=a.replay, keep_evidence=True)
                if rc_sim != 2:
                    with open(os.path.join(ROOT, "evidence", "C12.json")) as f:
                        sim_cov = json.load(f)["coverage"]
            if a.replay and not live_replay:
                rc = rc_sim
            else:
                out = livecheck.run_check(a.prop, tier, seed, designs=[] if live_replay else livecheck_designs(a.prop), replay=a.replay if live_replay else None)
                rc = out if isinstance(out, int) else (out["rc"] if live_replay else livecheck.finish_live(a.prop, tier, seed, out, LIVE_RULE[a.prop], LIVE_ASSUME, sim_cov=sim_cov))
                rc = max(rc, rc_sim)
        elif a.prop == "C19":
            from checks.refcheck import run_check
            rc = run_check(tier, seed)
        elif a.prop == "C17":
            from checks.laddercheck import run_check
            rc = run_check(tier, seed)
        elif a.prop == "C16":
            from checks.expcheck import run_check
            rc = run_check(tier, seed)
        elif a.prop in ("C13", "C14"):
            from checks.runcheck import run_check
            rc = run_check(a.prop, tier, seed)
        else:
            print("MACHINERY-ERROR unknown property %s" % a.prop)
            rc = 2
    except Exception as e:  # machinery failure is never a verdict
        import traceback
        traceback.print_exc()
        print("MACHINERY-ERROR property=%s %s: %s" % (a.prop, type(e).__name__, e))
        rc = 2
    sys.exit(rc)


if __name__ == "__main__":
    main()
