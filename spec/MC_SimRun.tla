------------------------------ MODULE MC_SimRun ------------------------------
(***************************************************************************)
(* SimRun: the closed, concrete model of simulation mode - SimCore's        *)
(* transition function with every oracle supplied by SimMatch (placement    *)
(* decision tree and passive matching on concrete books and traded          *)
(* ladders).  One market, one runner that matters ("11"), one strategy (a   *)
(* second one with TwoStrats, sharing or not the traded volume: Iso),       *)
(* prices 1.90 / 2.00 / 2.10, sizes in pence, one update per second,        *)
(* latencies 0.5 s.  Every behaviour of this model is directly replayable   *)
(* through the real FlumineSimulation (harness/replay_sim.py): the          *)
(* environment choices become a Betfair stream file, the strategy choices   *)
(* a script, and the real projected state must equal the model state after  *)
(* every step.  `last` records the choices of the step (hidden by VIEW in   *)
(* exhaustive runs).                                                        *)
(***************************************************************************)
EXTENDS SimProps, SimMatch

Stl == INSTANCE Settlement

CONSTANTS MaxUpdates, MaxReqs,
          TwoStrats,    \* a second strategy "B" (its own trade and runner context) trades the same runner
          Iso,          \* config.simulated_strategy_isolation
          WithClose     \* the environment may close the market (result drawn for runner 11); the run ends there

VARIABLES s, pc, nreq, book, upd, tainted, last
vars == <<s, pc, nreq, book, upd, tainted, last>>
View == <<s, pc, nreq, book, upd, tainted>>

Mid == "1.100000001"
Client == "c1"
Sel == "11"
RckOf(sn) == sn \o "|1.100000001|11"
Rck == RckOf("A")
LatMs == 500
Gap == 1000

\* ---- environment menus
Books ==     \* <<available to back (best first), available to lay (best first)>>
    { <<<<>>, <<>>>>,
      <<<<<<190, 500>>>>, <<<<210, 500>>>>>>,
      <<<<<<200, 100>>>>, <<<<210, 300>>>>>>,          \* 1.00 available to back at 2.0
      <<<<<<200, 300>>, <<190, 200>>>>, <<<<210, 300>>>>>>,
      <<<<<<190, 300>>>>, <<<<200, 100>>, <<210, 300>>>>>>,   \* a queue of 1.00 ahead of a BACK order resting at 2.0
      <<<<<<210, 100>>, <<200, 100>>>>, <<>>>> }
Deltas ==    \* volume newly traded in the update (price -> pence, both sides reported)
    { <<>>, (200 :> 200), (200 :> 400), (210 :> 200), (190 :> 400) @@ (200 :> 200) }

NoUpd == [atb |-> <<>>, atl |-> <<>>, delta |-> <<>>, status |-> "OPEN", version |-> 1, removed |-> FALSE, result |-> "NA"]

InitMkt == [status |-> "NONE", version |-> 0, inplay |-> FALSE, betdelay |-> 0, bsprec |-> FALSE,
            closed |-> FALSE, pt |-> -1, removed |-> <<>>, nactive |-> 2, nwin |-> 1]

Init ==
    /\ s = [clock |-> -1000, ord |-> <<>>, trd |-> <<>>, rc |-> <<>>, mkt |-> <<>>, hq |-> <<>>,
            tx |-> (Client :> [tot |-> 0, totf |-> 0])]
    /\ pc = "idle" /\ nreq = 0 /\ book = NoUpd /\ upd = NoUpd /\ tainted = {}
    /\ last = [act |-> "init"]

\* the book record SimMatch reads, built from an update record
BookRec(u, pt) ==
    [status |-> u.status, version |-> u.version, inplay |-> FALSE, bsprec |-> FALSE, bsp |-> TRUE, pt |-> pt,
     r |-> (Sel :> [status |-> IF u.removed THEN "REMOVED" ELSE "ACTIVE", atb |-> u.atb, atl |-> u.atl, sp |-> -1, af |-> -1])]

-----------------------------------------------------------------------------
Upd ==
    /\ pc = "idle" /\ s.clock + Gap < MaxUpdates * Gap
    /\ \E b \in Books, d \in Deltas, st \in {"OPEN", "OPEN", "SUSPENDED"}, bump \in BOOLEAN, rm \in BOOLEAN :
         /\ (rm => bump) /\ (book.removed => rm) /\ (book.version + (IF bump THEN 1 ELSE 0) <= 3)
         /\ (s.clock < 0 => (~rm /\ st = "OPEN" /\ d = <<>>))          \* the first update is an ordinary open book
         /\ (rm \/ st # "OPEN" => d = <<>>)
         /\ upd' = [atb |-> IF rm THEN <<>> ELSE b[1], atl |-> IF rm THEN <<>> ELSE b[2], delta |-> d, status |-> st,
                    version |-> book.version + (IF bump \/ s.clock < 0 THEN 1 ELSE 0), removed |-> rm, result |-> "NA"]
    /\ s' = Step(s, [ev |-> "upd", a |-> [pt |-> s.clock + Gap, mid |-> Mid]], <<>>)
    /\ pc' = "pend"
    /\ last' = [act |-> "upd", u |-> upd']
    /\ UNCHANGED <<nreq, book, tainted>>

FirstDue(st) ==
    IF \E i \in DOMAIN st.hq : Due(st, st.hq[i], Mid)
    THEN CHOOSE i \in DOMAIN st.hq : Due(st, st.hq[i], Mid) /\ \A j \in DOMAIN st.hq : Due(st, st.hq[j], Mid) => i <= j
    ELSE 0

RLab(o) == IF o = "o1" THEN "o1.r1" ELSE IF o = "o2" THEN "o2.r1" ELSE IF o = "b1" THEN "b1.r1" ELSE "x.r1"

\* the engine's answer for every order of the package, computed by SimMatch on the book that
\* prevailed before this update
Exec ==
    /\ pc \in {"pend", "cpend"}
    /\ LET i == FirstDue(s) IN
       /\ i > 0
       /\ LET p == s.hq[i]
              mb == BookRec(book, s.mkt[Mid].pt)
              env(instr) == [pkgmver |-> p.mver, bpe |-> TRUE, fullmatch |-> FALSE, pt |-> s.mkt[Mid].pt, instr |-> instr]
              labs == PkgOrders(s, p.orders)
              e == [ev |-> "exec", a |-> [kind |-> p.kind, orders |-> p.orders, client |-> Client, qi |-> i, persok |-> TRUE,
                                          created |-> p.created, rlab |-> [o \in SeqToSet(p.orders) |-> RLab(o)]]]
              placeRes(o) == LET r == Place(s.ord[o], mb, mb.r[Sel], env(TRUE)) IN [ApplyRes(s.ord[o], r) EXCEPT !.bet = r.ok]
              replRes(o) == LET c == CancelAmount(s, o)
                                rep == NewReplacement(s, o, RLab(o), s.ord[o].newp, c, p.created)
                                r == Place(rep, mb, mb.r[Sel], env(FALSE))
                            IN [ApplyRes(rep, r) EXCEPT !.bet = r.ok]
              n == IF p.kind = "PLACE" THEN [ord |-> [o \in SeqToSet(labs) |-> placeRes(o)], rlab |-> <<>>]
                   ELSE IF p.kind = "REPLACE"
                   THEN LET lv == {o \in SeqToSet(labs) : s.ord[o].status # "COMPLETE" /\ CancelAmount(s, o) >= 0}
                        IN [ord |-> [r \in {RLab(o) : o \in lv} |-> replRes(CHOOSE o \in lv : RLab(o) = r)], rlab |-> [o \in lv |-> RLab(o)]]
                   ELSE [ord |-> <<>>, rlab |-> <<>>]
          IN /\ s' = Step(s, e, n)
             /\ last' = [act |-> "exec", kind |-> p.kind, orders |-> p.orders]
    /\ UNCHANGED <<pc, nreq, book, upd, tainted>>

PendDone ==
    /\ pc = "pend" /\ FirstDue(s) = 0
    /\ s' = Step(s, [ev |-> "pend", a |-> [mid |-> Mid]], <<>>)
    /\ pc' = "mw" /\ last' = [act |-> "pend"]
    /\ UNCHANGED <<nreq, book, upd, tainted>>

\* removal void (post-repair semantics) then the matching pass of SimMatch
VoidAll(ord) == [o \in DOMAIN ord |-> IF ord[o].inbl /\ ord[o].selk = Sel
                                       THEN [ord[o] EXCEPT !.m = 0, !.avg = 0, !.frags = <<>>, !.can = 0, !.lap = 0, !.void = ord[o].size]
                                       ELSE ord[o]]
Mw ==
    /\ pc = "mw"
    /\ LET newlyRemoved == upd.removed /\ ~book.removed
           mb == BookRec(upd, s.clock)
           ord1 == IF newlyRemoved THEN VoidAll(s.ord) ELSE s.ord
           active == \E o \in DOMAIN s.ord : s.ord[o].inbl
           ord2 == IF active
                   THEN MwAll(ord1, Mid, Iso, (Sel :> upd.delta), mb, s.clock, (Client :> 1000))
                   ELSE ord1
           mk == [InitMkt EXCEPT !.status = upd.status, !.version = upd.version, !.pt = s.clock,
                                 !.removed = IF upd.removed THEN <<Sel>> ELSE <<>>,
                                 !.nactive = IF upd.removed THEN 1 ELSE 2]
       IN s' = Step(s, [ev |-> "mw", a |-> [mid |-> Mid]], [ord |-> ord2, mkt |-> (Mid :> mk)])
    /\ book' = upd
    /\ pc' = IF \E o \in DOMAIN s.ord : s.ord[o].inbl THEN "sweep" ELSE "cb"
    /\ last' = [act |-> "mw"]
    /\ UNCHANGED <<nreq, upd, tainted>>

Sweep ==
    /\ pc = "sweep"
    /\ s' = Step(s, [ev |-> "sweep", a |-> [mid |-> Mid]], <<>>)
    /\ pc' = "cb" /\ last' = [act |-> "sweep"]
    /\ UNCHANGED <<nreq, book, upd, tainted>>

\* ---- strategy
PlaceReqOf(sn, o, side, price, size, tif, minfill, t) ==
    [kind |-> "PLACE", o |-> o, t |-> t, force |-> FALSE, ctx |-> FALSE, mid |-> Mid, strat |-> sn, rck |-> RckOf(sn),
     sel |-> 11, side |-> side, otype |-> "LIMIT", price |-> price, size |-> size, pers |-> "LAPSE", tif |-> tif,
     minfill |-> minfill, multi |-> TRUE, reset |-> 0, placereset |-> 0, maxtrades |-> 1000000, maxlive |-> 1000,
     pendorders |-> FALSE, r |-> "ACCEPT", selk |-> Sel, client |-> Client, lad |-> "CLASSIC", tclient |-> "", mver |-> -1]
PlaceReq(o, side, price, size, tif, minfill, t) == PlaceReqOf("A", o, side, price, size, tif, minfill, t)

Requests ==
    {PlaceReq("o1", "BACK", 200, 200, "NONE", -1, "t1"), PlaceReq("o1", "BACK", 210, 200, "NONE", -1, "t1"),
     PlaceReq("o2", "LAY", 200, 200, "NONE", -1, "t2"), PlaceReq("o2", "BACK", 200, 300, "FOK", 200, "t1"),
     PlaceReq("o2", "BACK", 200, 200, "NONE", -1, "t1")}
    \cup (IF TwoStrats
          THEN {PlaceReqOf("B", "b1", "BACK", 200, 200, "NONE", -1, "tb"), PlaceReqOf("B", "b1", "BACK", 190, 300, "NONE", -1, "tb"),
                PlaceReqOf("B", "b1", "LAY", 200, 200, "NONE", -1, "tb")}
          ELSE {})
    \cup {[kind |-> "CANCEL", o |-> o, red |-> rd, force |-> FALSE, mid |-> Mid, r |-> "ACCEPT", tclient |-> ""] :
             o \in DOMAIN s.ord, rd \in {0, 100}}
    \cup {[kind |-> "UPDATE", o |-> o, pers |-> "PERSIST", force |-> FALSE, mid |-> Mid, r |-> "ACCEPT", tclient |-> ""] :
             o \in DOMAIN s.ord}
    \cup {[kind |-> "REPLACE", o |-> o, price |-> 190, force |-> FALSE, mid |-> Mid, r |-> "ACCEPT", tclient |-> "", mver |-> -1] :
             o \in DOMAIN s.ord \cap {"o1", "o2", "b1"}}

\* the real controls accept whatever this module leaves open (no limits are configured in the replay)
Verdict(q) == LET ex == Expected(s, q) IN
              IF ex = "ANY" THEN "ACCEPT" ELSE IF ex = "ERRORorREFUSE" THEN (IF MktOpen(s, Mid) THEN "ERROR" ELSE "REFUSE") ELSE ex

Cb ==
    /\ pc = "cb"
    /\ \/ /\ s' = s /\ UNCHANGED <<nreq, tainted>> /\ last' = [act |-> "cb", reqs |-> <<>>]
       \/ /\ nreq < MaxReqs
          /\ \E q0 \in Requests :
               LET q == [q0 EXCEPT !.r = Verdict(q0)]
                   pk == IF q.r = "ACCEPT"
                         THEN <<[kind |-> q.kind, orders |-> <<q.o>>, delay |-> LatMs, mid |-> Mid, mver |-> -1, client |-> Client]>>
                         ELSE <<>>
               IN /\ s' = Step(s, [ev |-> "cb", reqs |-> <<q>>, pkgs |-> pk], <<>>)
                  /\ last' = [act |-> "cb", reqs |-> <<q>>]
                  /\ tainted' = LET qq == NormReq(s, q) IN
                                IF q.kind = "PLACE" /\ q.r = "ACCEPT" /\ Has(s.trd, qq.t) /\ s.trd[qq.t].status = "COMPLETE"
                                THEN tainted \cup {qq.t} ELSE tainted
          /\ nreq' = nreq + 1
    /\ pc' = "idle"
    /\ UNCHANGED <<book, upd>>

\* ---- closure: the closing update (status CLOSED, results) first releases the packages that are due - they are executed
\* against the last open book -, completes what they filled (FlumineSimulation._complete_simulated_orders), then the
\* market is closed and every order settled by the exchange's rules (Settlement.tla).  The run ends there.
CloseUpd ==
    /\ WithClose /\ pc = "idle" /\ s.clock >= 0
    /\ \E res \in {"WINNER", "LOSER", "REMOVED"} :      \* REMOVED: possibly first declared by the closing update itself
         LET rr == IF book.removed THEN "REMOVED" ELSE res IN
         upd' = [NoUpd EXCEPT !.status = "CLOSED", !.version = book.version, !.removed = (rr = "REMOVED"), !.result = rr]
    /\ s' = Step(s, [ev |-> "upd", a |-> [pt |-> s.clock + Gap, mid |-> Mid]], <<>>)
    /\ pc' = "cpend"
    /\ last' = [act |-> "closeupd", u |-> upd']
    /\ UNCHANGED <<nreq, book, tainted>>

SettleOf(st, res) ==
    [o \in {x \in DOMAIN st.ord : st.ord[x].inbl} |->
        Stl!Profit(st.ord[o].side, st.ord[o].frags, "WIN", res, 1, 1, FALSE, 0, -1)]

Close ==
    /\ pc = "cpend" /\ FirstDue(s) = 0
    /\ LET s1 == Step(s, [ev |-> "pend", a |-> [mid |-> Mid]], <<>>)
           mk == [InitMkt EXCEPT !.status = "CLOSED", !.version = upd.version, !.closed = TRUE, !.pt = s.clock,
                                 !.removed = IF upd.removed THEN <<Sel>> ELSE <<>>, !.nactive = 0]
           s2 == Step(s1, [ev |-> "close", a |-> [mid |-> Mid]], [mkt |-> (Mid :> mk)])
       IN /\ s' = s2
          /\ last' = [act |-> "close", result |-> upd.result, settle |-> SettleOf(s2, upd.result)]
    /\ pc' = "closed" /\ book' = upd
    /\ UNCHANGED <<nreq, upd, tainted>>

Next == Upd \/ Exec \/ PendDone \/ Mw \/ Sweep \/ Cb \/ CloseUpd \/ Close
Spec == Init /\ [][Next]_vars

-----------------------------------------------------------------------------
AtEndOfUpdate == pc = "idle"
Inv_C03_OneInFlight == OneInFlight(s)
Inv_C04_Conserved == \A o \in DOMAIN s.ord : Conserved(s.ord[o]) /\ NonNeg(s.ord[o])
Inv_C04_CompleteIff == pc \in {"cb", "idle"} => \A o \in DOMAIN s.ord : CompleteIffNothingRemains(s.ord[o])
Inv_C10_LiveTradesExact == AtEndOfUpdate => {x \in LiveTradesWrong(s) : x[2] \notin tainted} = {}
Inv_C10_TradeCompleteIff == AtEndOfUpdate => TradeStatusWrong(s) \ tainted = {}
Inv_C10_NoTradePending == TradePendingLeft(s) = {}
Inv_C15_LiveListComplete == AtEndOfUpdate => LiveListIncomplete(s) = {}
Inv_C07_NoDueLeft == pc \in {"mw", "sweep", "cb", "idle"} => SurvivingDue(s, Mid) = {}
Inv_C05_FokNeverRests == \A o \in DOMAIN s.ord : (s.ord[o].tif = "FOK" /\ s.ord[o].status \in MatchSt) => Rem(s.ord[o]) = 0
Inv_C09_RemovedComplete ==
    pc \in {"cb", "idle"} => \A o \in DOMAIN s.ord :
        (s.ord[o].inbl /\ Has(s.mkt, Mid) /\ s.mkt[Mid].removed # <<>> /\ ~(s.ord[o].status = "PENDING" /\ s.ord[o].void = 0 /\ s.ord[o].m = 0))
            => (s.ord[o].cplt /\ s.ord[o].m = 0 /\ Rem(s.ord[o]) = 0)
\* ---- closure (C08 / C20 on the closed model): what the lifecycle leaves at the close settles as the rules say
Closed == pc = "closed"
Inv_C08_UnmatchedPaysNothing ==
    Closed => \A o \in DOMAIN s.ord : (s.ord[o].inbl /\ s.ord[o].m = 0) => SettleOf(s, upd.result)[o][1] = 0
Inv_C08_RemovedPaysNothing ==
    Closed /\ upd.removed => \A o \in DOMAIN s.ord : s.ord[o].inbl => SettleOf(s, upd.result)[o][1] = 0
\* the stake at risk never exceeds what was matched: a losing back loses exactly the matched stake, a winning lay
\* pays exactly the matched liability
Inv_C08_LossBounded ==
    Closed => \A o \in DOMAIN s.ord : s.ord[o].inbl =>
        LET p == SettleOf(s, upd.result)[o] IN
        /\ (s.ord[o].side = "BACK" /\ upd.result = "LOSER" => p[1] = -(s.ord[o].m * 100))
        /\ (s.ord[o].side = "LAY" /\ upd.result = "LOSER" => p[1] = s.ord[o].m * 100)
        /\ (s.ord[o].side = "BACK" /\ upd.result = "WINNER" => p[1] >= 0)
\* nothing is left queued or in flight for the closed market and no runner context survives it
Inv_C20_Released == Closed => (s.mkt[Mid].closed /\ s.mkt[Mid].status = "CLOSED" /\ \A k \in DOMAIN s.rc : s.rc[k].mid # Mid)
\* the sum of the fragments is the matched size at the close (what settlement reads is what was conserved)
Inv_C04_FragmentsAtClose == Closed => \A o \in DOMAIN s.ord : s.ord[o].inbl => Stl!SumStake(s.ord[o].frags) = s.ord[o].m
Reach_RemovedAtCloseWithFill == ~(pc = "cpend" /\ upd.removed /\ ~book.removed /\ \E o \in DOMAIN s.ord : s.ord[o].m > 0)
Reach_ClosedWithFill == ~(Closed /\ \E o \in DOMAIN s.ord : s.ord[o].m > 0)
Reach_FilledOnClosingUpdate == ~(Closed /\ last.act = "close" /\ \E o \in DOMAIN s.ord : s.ord[o].m > 0 /\ s.ord[o].placed = s.clock)
Prop_C03_Finality == [][FinalityBroken(s, s') = {}]_vars
Prop_C04_MatchedMonotone == [][\A o \in DOMAIN s.ord \cap DOMAIN s'.ord : MatchedMonotone(s.ord[o], s'.ord[o])]_vars
Reach_PartialFill == ~(\E o \in DOMAIN s.ord : s.ord[o].m > 0 /\ Rem(s.ord[o]) > 0 /\ Len(s.ord[o].frags) >= 2)
Reach_Replacement == ~(\E o \in DOMAIN s.ord : o \notin {"o1", "o2"} /\ s.ord[o].status = "EXECUTABLE")
Reach_QueueHonoured == ~(\E o \in DOMAIN s.ord : s.ord[o].piq > 0 /\ s.ord[o].status = "EXECUTABLE")
=============================================================================
