---------------------------- MODULE MC_Transaction ----------------------------
(* every sequence of <= N events over 2 orders x 4 kinds x 2 versions x verdicts with execute /
   exit interleaved, per-call limit 2: everything accepted is packaged exactly once, in a package
   of its kind, of one version, within the limit, in request order; nothing is left after exit. *)
EXTENDS Transaction
CONSTANTS N
VARIABLES events, closed
vars == <<events, closed>>
Limits == [PLACE |-> 2, CANCEL |-> 2, UPDATE |-> 2, REPLACE |-> 2]
Orders == {"a", "b"}
Init == events = <<>> /\ closed = FALSE
AddReq == /\ ~closed /\ Len(events) < N
          /\ \E k \in {"PLACE", "CANCEL", "UPDATE", "REPLACE"}, o \in Orders, v \in {1, 2}, r \in {"ACCEPT", "REFUSE"} :
                events' = Append(events, <<"req", k, o, IF k \in {"PLACE", "REPLACE"} THEN v ELSE 0, r>>)
          /\ UNCHANGED closed
Execute == ~closed /\ Len(events) < N /\ events' = Append(events, <<"execute">>) /\ UNCHANGED closed
Exit == ~closed /\ events' = Append(events, <<"exit">>) /\ closed' = TRUE
Next == AddReq \/ Execute \/ Exit
Spec == Init /\ [][Next]_vars

PK == Expected(events, Limits)
Acc == Accepted(events)
CountAcc(k, o) == Cardinality({i \in DOMAIN Acc : Acc[i][2] = k /\ Acc[i][3] = o})
CountPk(k, o) == Cardinality({<<i, j>> \in (DOMAIN PK) \X (1..2) : j \in DOMAIN PK[i][2] /\ PK[i][1] = k /\ PK[i][2][j] = o})
Inv_ExactlyOnceAfterExit == closed => \A k \in {"PLACE", "CANCEL", "UPDATE", "REPLACE"} : \A o \in Orders : CountAcc(k, o) = CountPk(k, o)
Inv_NeverTwice == \A k \in {"PLACE", "CANCEL", "UPDATE", "REPLACE"} : \A o \in Orders : CountPk(k, o) <= CountAcc(k, o)
Inv_WithinLimit == WithinLimit(PK, Limits)
Inv_NothingPendingAfterExit == closed => ~AnyPending(LeftPending(events, Limits))
Inv_OneVersionPerPackage ==
    \A i \in DOMAIN PK : \A j \in DOMAIN PK[i][2] :
        \E k \in DOMAIN Acc : Acc[k][2] = PK[i][1] /\ Acc[k][3] = PK[i][2][j] /\ Acc[k][4] = PK[i][3]
Reach_TwoChunks == ~(\E i, j \in DOMAIN PK : i # j /\ PK[i][1] = PK[j][1] /\ PK[i][3] = PK[j][3])
=============================================================================
