------------------------------- MODULE LiveTrace -------------------------------
(***************************************************************************)
(* Trace validation for live-mode traces recorded by harness/livedrv.py     *)
(* (real Flumine + BetfairExecution against an exchange double, thread pool *)
(* replaced by a deterministic queue).  The local state has the shape of    *)
(* SimCore's state records, so the lifecycle / accounting / blotter         *)
(* formulas of SimProps apply unchanged; st.xb is the exchange's bet table, *)
(* st.pool the submitted-but-not-run execution thunks.                      *)
(***************************************************************************)
EXTENDS SimProps, Json, IOUtils, TLCExt
CONSTANT Props
VARIABLES tid, l
Traces == JsonDeserialize(IOEnv.TRACE_FILE)
NSteps(t) == Len(Traces[t].steps)
S(i) == Traces[tid].steps[i]
Viol(prop, name, detail) == PrintT(<<"VIOL", prop, name, Traces[tid].id, l + 1, detail>>)
Ck(prop, name, cond, detail) == IF cond THEN TRUE ELSE Viol(prop, name, detail)

-----------------------------------------------------------------------------
(* what one instruction report must do to the order it belongs to
   (the BetfairExecution execute handlers), given the order before the response *)
ExpectedStatus(kind, before, out, async) ==
    IF kind = "PLACE"
    THEN IF out.status = "SUCCESS"
         THEN (IF out.ostatus = "PENDING" THEN before.status       \* async: picked up by the order stream
               ELSE IF out.ostatus = "EXPIRED" THEN "COMPLETE"
               ELSE IF before.status = "COMPLETE" THEN "COMPLETE" ELSE "EXECUTABLE")
         ELSE IF out.status = "FAILURE" THEN "COMPLETE"
         ELSE before.status                                          \* TIMEOUT: may yet have been accepted
    ELSE IF before.status = "COMPLETE" THEN "COMPLETE"               \* completed meanwhile: final
    ELSE IF kind = "CANCEL"
    THEN IF out.status = "SUCCESS"
         THEN (IF out.cancelled = before.rem \/ before.rem = 0 THEN "COMPLETE" ELSE "EXECUTABLE")
         ELSE IF out.status = "FAILURE" /\ out.code = "BET_TAKEN_OR_LAPSED" THEN "COMPLETE"
         ELSE "EXECUTABLE"
    ELSE IF kind = "UPDATE" THEN "EXECUTABLE"
    ELSE \* REPLACE: the original
         IF out.status = "SUCCESS" THEN "COMPLETE" ELSE "EXECUTABLE"

InFlightOf(kind) == CASE kind = "PLACE" -> "PENDING" [] kind = "CANCEL" -> "CANCELLING"
                     [] kind = "UPDATE" -> "UPDATING" [] kind = "REPLACE" -> "REPLACING" [] OTHER -> "?"
P_C12(pre, e) ==
    e.ev = "run" =>
    LET post == e.st
        a == e.a
        sent == SeqToSet(a.sent)
    IN
    \* an exception must not escape the handler (it would silently kill the pool thread's task)
    /\ Ck("C12", "NoEscapingException", a.err = "", a.err)
    /\ Ck("C12", "RetriesBounded", a.calls_for_pkg <= 4, a.calls_for_pkg)
    \* each order of the request can progress afterwards
    /\ \A o \in sent :
         Has(post.ord, o) =>
           Ck("C12", "NoneStranded",
              \/ post.ord[o].status \in {"EXECUTABLE", "COMPLETE"}
              \* another attempt is queued - and the order is still part of it
              \/ (a.resubmitted /\ \E i \in DOMAIN post.pool : o \in SeqToSet(post.pool[i].orders))
              \* a further request for the order is outstanding (e.g. a cancel made after the stream had picked the
              \* asynchronous placement up, before this response): its own handler will move the order on
              \/ (\E i \in DOMAIN post.pool : o \in SeqToSet(post.pool[i].orders) /\ post.ord[o].status = InFlightOf(post.pool[i].kind))
              \/ ( /\ a.kind = "PLACE" /\ post.ord[o].status = "PENDING" /\ a.answered
                   /\ Has(a.outs, o) /\ (a.outs[o].status = "TIMEOUT" \/ a.outs[o].ostatus = "PENDING") ),
              <<o, a.kind, post.ord[o].status, a.plan>>)
    /\ Ck("C12", "NoTradeLeftPending", TradePendingLeft(post) = {}, TradePendingLeft(post))
    \* each report is applied to the order it belongs to
    /\ (a.answered => \A o \in DOMAIN a.outs :
          Has(post.ord, o) =>
            Ck("C12", "ReportToOwner",
               \/ post.ord[o].status = ExpectedStatus(a.kind, a.pre[o], a.outs[o], a.async_)
               \* an order-stream update processed between the request and its response may already
               \* have advanced the order (async pick-up) or completed it (final)
               \/ (a.during /\ (post.ord[o].status = "COMPLETE"
                                \/ (a.kind = "PLACE" /\ post.ord[o].status = "EXECUTABLE" /\ a.outs[o].status # "FAILURE"))),
               <<o, a.kind, a.outs[o], "before", a.pre[o].status, "after", post.ord[o].status>>))
    \* an order of the package whose report is missing is reset so that it can be picked up again
    /\ (a.answered /\ a.kind = "CANCEL" => \A o \in sent \ DOMAIN a.outs :
          Has(post.ord, o) => Ck("C12", "MissingReportReset", post.ord[o].status \in {"EXECUTABLE", "COMPLETE"}, o))
    \* transaction counts: bets submitted in answered place / replace calls + failed reports
    /\ LET dtot == post.tx["double"].tot - a.tx0.tot
           dtotf == post.tx["double"].totf - a.tx0.totf
           failedNonPlace == IF a.kind = "PLACE" THEN 0 ELSE a.nfailed
       IN Ck("C12", "CountsExact",
             IF ~a.answered THEN dtot = 0 /\ dtotf = 0
             ELSE /\ dtot = (IF a.kind \in {"PLACE", "REPLACE"} THEN a.n_instr ELSE 0)
                  /\ dtotf = failedNonPlace,
             <<a.kind, a.n_instr, a.nfailed, dtot, dtotf, a.answered>>)

-----------------------------------------------------------------------------
(* C11 at quiescent points: nothing in flight and the latest snapshot processed after the last
   response / exchange event *)
Quiescent(e) == "quiescent" \in DOMAIN e.a /\ e.a.quiescent /\ e.st.pool = <<>>
BetsOfRef(s, ref) == {b \in DOMAIN s.xb : s.xb[b].ref = ref}
\* the strategy hash is known to this instance iff some order / strategy carries it: recorded by the driver
StratOfKey(k) == LET i == CHOOSE j \in 1..Len(k) : SubSeq(k, j, j) = "|" /\ \A m \in 1..(j - 1) : SubSeq(k, m, m) # "|" IN SubSeq(k, 1, i - 1)
\* markets that hold a bet of a strategy this instance runs
KnownMarkets(s) == {s.xb[b].mid : b \in {x \in DOMAIN s.xb : s.xb[x].sref = "KNOWN" /\ ~s.xb[x].settled}}
P_C11(pre, e) ==
    LET post == e.st IN
    /\ (Quiescent(e) =>
         /\ \A o \in DOMAIN post.ord :
              LET r == post.ord[o] IN
              (r.inbl /\ r.status # "VIOLATION") =>
                /\ (r.bet => Ck("C11", "BetKnownAtExchange", r.betid \in DOMAIN post.xb, <<o, r.betid>>))
                /\ ((r.bet /\ r.betid \in DOMAIN post.xb) =>
                      LET b == post.xb[r.betid] IN
                      /\ Ck("C11", "SizesAgree", r.m = b.m /\ r.rem = b.rem, <<o, "local", r.m, r.rem, "exchange", b.m, b.rem>>)
                      /\ Ck("C11", "CompletenessAgrees", r.cplt <=> (b.status = "EXECUTION_COMPLETE"),
                            <<o, r.status, b.status>>))
                \* an order without a bet id has no live bet at the exchange under its reference
                /\ (~r.bet => Ck("C11", "NoOrphanBet",
                                 \A b \in BetsOfRef(post, r.ref) : post.xb[b].status # "EXECUTABLE", <<o, r.status, BetsOfRef(post, r.ref)>>))
                /\ Ck("C11", "CompleteLeftLiveList", r.cplt => ~r.live, <<o, r.status>>)
         /\ Ck("C11", "TradesComplete", TradeStatusWrong(post) = {}, TradeStatusWrong(post))
         \* every bet of a known strategy is represented by exactly one local order; others by none
         /\ \A b \in {x \in DOMAIN post.xb : ~post.xb[x].settled} :      \* (bets of a closed market have left the order stream)
              LET n == Cardinality({o \in DOMAIN post.ord : post.ord[o].inbl /\ post.ord[o].betid = b}) IN
              IF post.xb[b].sref = "KNOWN"
              THEN Ck("C11", "AdoptedExactlyOnce", n = 1, <<b, n, post.xb[b].ref>>)
              ELSE Ck("C11", "UnknownStrategyIgnored", n = 0, <<b, n>>))
    \* an update for an unknown strategy is ignored WITHOUT EFFECT: processing an order-stream image registers no
    \* market that holds only such bets
    /\ (e.ev \in {"proc", "restart"} =>
          Ck("C11", "UnknownStrategyNoEffect",
             (DOMAIN post.mkt \ (IF e.ev = "restart" THEN {} ELSE DOMAIN pre.mkt)) \subseteq KnownMarkets(post),
             <<DOMAIN post.mkt, KnownMarkets(post)>>))
    \* after a restart the adopted orders count towards exposure and live-trade accounting as before
    /\ (e.ev = "restart" =>
          \A k \in {x \in DOMAIN e.a.pre : \E i \in DOMAIN e.a.running : StratOfKey(x) = e.a.running[i]} :   \* strategies the new instance runs
             Ck("C11", "AdoptedCounts",
                \* (a runner that carried nothing before the crash - a market merely looked at - need not exist afterwards)
                \* (live trades are compared on what the new instance can find: trades with a live bet at the exchange;
                \*  an order that never got there - still PENDING at the crash - is gone with the old process)
                \/ (k \notin DOMAIN e.a.post /\ e.a.pre[k].win = 0 /\ e.a.pre[k].lose = 0 /\ e.a.pre[k].nlivex = 0)
                \/ (k \in DOMAIN e.a.post /\ (e.a.pre[k].phantom \/ (e.a.post[k].win = e.a.pre[k].win /\ e.a.post[k].lose = e.a.pre[k].lose))
                    /\ (e.a.pre[k].nlivex > 0 <=> e.a.post[k].nlive > 0)),
                <<k, e.a.pre[k], IF k \in DOMAIN e.a.post THEN e.a.post[k] ELSE <<>>>>))

-----------------------------------------------------------------------------
(* live halves of C03 / C10 / C15 / C20 / C13 *)
\* (an asynchronous placement is picked up - bet id and status - from the order stream, which may
\* overtake a retry that the exchange de-duplicates by customer reference)
InFlightOk(o, kind) == \/ o.status = InFlightOf(kind)
                       \/ (kind = "PLACE" /\ o.async /\ o.bet)     \* picked up: the order leads its own life from then on
P_C03L(pre, e) ==
    /\ Ck("C03", "LegalTransition", IllegalTransitions(e) = {}, {e.trans[i] : i \in IllegalTransitions(e)})
    \* live mode: complete is final; the local copy of the matched size may still catch up with the
    \* exchange through the order stream, but it never decreases
    /\ (pre.instance = e.st.instance =>
          Ck("C03", "Finality",
             \A o \in DOMAIN pre.ord \cap DOMAIN e.st.ord :
                (pre.ord[o].inbl /\ pre.ord[o].status = "COMPLETE") =>
                   /\ e.st.ord[o].status = "COMPLETE"
                   \* (a stale snapshot - C11's fault model - may show an older matched size until the latest is processed)
                   /\ (e.st.ord[o].m >= pre.ord[o].m \/ (e.ev = "proc" /\ ~e.a.latest)),
             {o \in DOMAIN pre.ord \cap DOMAIN e.st.ord : pre.ord[o].status = "COMPLETE" /\ e.st.ord[o].status # "COMPLETE"}))
    /\ \A i \in DOMAIN e.reqs :
          /\ Ck("C03", "RequestGuards",
                ~(e.reqs[i].r = "ACCEPT" /\ e.reqs[i].kind \in {"CANCEL", "UPDATE", "REPLACE"}
                  /\ ~(e.reqs[i].before.status = "EXECUTABLE" /\ e.reqs[i].before.bet)), <<e.reqs[i].kind, e.reqs[i].o>>)
          /\ Ck("C03", "RejectedNoEffect",
                ~(e.reqs[i].r \in {"ERROR", "REFUSE"} /\ e.reqs[i].kind # "PLACE" /\ "before" \in DOMAIN e.reqs[i] /\ e.reqs[i].before # e.reqs[i].after),
                <<e.reqs[i].kind, e.reqs[i].o, e.reqs[i].r>>)
    \* at most one operation in flight per order
    /\ Ck("C03", "OneInFlight",
          \* (the response to an asynchronous placement that the order stream has already picked up carries no
          \*  operation of its own any more)
          \A o \in DOMAIN e.st.ord :
             Cardinality({i \in DOMAIN e.st.pool : o \in SeqToSet(e.st.pool[i].orders)
                                                    /\ ~(e.st.pool[i].kind = "PLACE" /\ e.st.ord[o].async /\ e.st.ord[o].bet)}) <= 1, "")
    \* while a request for an order is outstanding (queued, on the wire or waiting for its retry) the order
    \* shows the in-flight status of that request: the order stream moves PENDING (with a bet id) and
    \* EXECUTABLE orders only, and the execution thread resets orders only when it gives the request up
    /\ Ck("C03", "InFlightStatusWhileOutstanding",
          \A i \in DOMAIN e.st.pool : \A o \in SeqToSet(e.st.pool[i].orders) :
             Has(e.st.ord, o) => InFlightOk(e.st.ord[o], e.st.pool[i].kind),
          UNION {{<<e.st.pool[i].kind, o, e.st.ord[o].status>> :
                     o \in {x \in DOMAIN e.st.ord : x \in SeqToSet(e.st.pool[i].orders) /\ ~InFlightOk(e.st.ord[x], e.st.pool[i].kind)}} :
                 i \in DOMAIN e.st.pool})
P_C10L(pre, e) ==
    /\ Ck("C10", "LiveTradesExact", LiveTradesWrong(e.st) = {}, LiveTradesWrong(e.st))
    /\ Ck("C10", "TradeCompleteIff", TradeStatusWrong(e.st) = {}, TradeStatusWrong(e.st))
    /\ Ck("C10", "NoTradePending", TradePendingLeft(e.st) = {}, TradePendingLeft(e.st))
P_C15L(pre, e) ==
    /\ Ck("C15", "LiveListComplete", LiveListIncomplete(e.st) = {}, LiveListIncomplete(e.st))
    /\ (pre.instance = e.st.instance =>
          \* (orders of a market that the framework released - closed for more than an hour, C20 - go with it)
          LET left == {o \in LeftLiveWhileIncomplete(pre, e.st) : Has(e.st.mkt, e.st.ord[o].mid)}
          IN Ck("C15", "RemovedOnlyAfterComplete", left = {}, left))
    /\ Ck("C15", "LiveInBlotter", LiveNotInBlotter(e.st) = {}, LiveNotInBlotter(e.st))
    \* the view by bet id returns the very object for every replacement / adopted order (once its bet id is known)
    /\ Ck("C15", "BetIdViewHolds", \A o \in DOMAIN e.st.ord : e.st.ord[o].inst = e.st.instance => e.st.ord[o].bybet,
          {o \in DOMAIN e.st.ord : e.st.ord[o].inst = e.st.instance /\ ~e.st.ord[o].bybet})
    \* every order adopted from the order stream is in the blotter of its market, once (at quiescent points, where
    \* adoption is due: the latest image has been processed)
    /\ (Quiescent(e) =>
          \A b \in {x \in DOMAIN e.st.xb : ~e.st.xb[x].settled /\ e.st.xb[x].sref = "KNOWN"} :
             LET holders == {o \in DOMAIN e.st.ord : e.st.ord[o].betid = b /\ e.st.ord[o].inst = e.st.instance}
             IN Ck("C15", "AdoptedOnceInItsBlotter",
                   Cardinality({o \in holders : e.st.ord[o].inbl}) <= 1 /\ (holders # {} => \E o \in holders : e.st.ord[o].inbl),
                   <<b, holders>>))
    \* status filters return precisely the orders that satisfy them, whichever list the code serves them from
    /\ \A mid \in DOMAIN e.st.flt : \A sn \in DOMAIN e.st.flt[mid] :
          LET F == e.st.flt[mid][sn]
              mine == {o \in DOMAIN e.st.ord : e.st.ord[o].mid = mid /\ e.st.ord[o].inbl /\ e.st.ord[o].strat = sn /\ e.st.ord[o].inst = e.st.instance}
          IN Ck("C15", "FiltersExact",
                /\ SeqToSet(F.all) = mine
                /\ SeqToSet(F.livestatus) = {o \in mine : e.st.ord[o].status \in {"PENDING", "EXECUTABLE", "CANCELLING", "UPDATING", "REPLACING"}}
                /\ SeqToSet(F.executable) = {o \in mine : e.st.ord[o].status = "EXECUTABLE"}
                /\ SeqToSet(F.complete) = {o \in mine : e.st.ord[o].status = "COMPLETE"},
                <<mid, sn, F>>)
\* data for a closed market (a book, or a raw dict update with or without a definition) re-opens it with
\* its cleared flags reset
P_C20R(pre, e) ==
    (e.ev \in {"book", "raw"} /\ Has(pre.mkt, e.a.mid) /\ pre.mkt[e.a.mid].closed) =>
       Ck("C20", "ReopenedWithFlagsReset",
          Has(e.st.mkt, e.a.mid) /\ ~e.st.mkt[e.a.mid].closed /\ e.st.mkt[e.a.mid].ncleared = 0,
          <<e.ev, e.a.mid, IF Has(e.st.mkt, e.a.mid) THEN <<e.st.mkt[e.a.mid].closed, e.st.mkt[e.a.mid].ncleared>> ELSE <<>>>>)

\* the closure worker marks a closed market's orders and its market summary as fetched, one flag each per client
P_C20F(pre, e) ==
    (e.ev = "cleared" /\ Has(pre.mkt, e.a.mid) /\ pre.mkt[e.a.mid].closed /\ Has(e.st.mkt, e.a.mid)) =>
       Ck("C20", "ClearedFlagsSeparate", e.st.mkt[e.a.mid].ncleared = pre.mkt[e.a.mid].ncleared + 2,
          <<e.a.mid, pre.mkt[e.a.mid].ncleared, e.st.mkt[e.a.mid].ncleared>>)

P_C20L(pre, e) ==
    e.ev = "close" =>
       /\ Ck("C20", "CallbackOncePerClosingUpdate",
             \A i \in DOMAIN e.a.subscribed : Cardinality({j \in DOMAIN e.a.closed_calls : e.a.closed_calls[j] = <<e.a.subscribed[i], e.a.mid>>}) = 1,
             <<e.a.closed_calls, e.a.subscribed>>)
       /\ Ck("C20", "ClosedFlag", Has(e.st.mkt, e.a.mid) => e.st.mkt[e.a.mid].closed, e.a.mid)
       \* a live framework only removes markets closed for more than an hour: the market closing now stays,
       \* any other market disappears only if the driver's own ledger says its LATEST closure is more than
       \* 3600 s old (a re-opened and re-closed market counts from the second closure) ...
       /\ Ck("C20", "LiveRemovesOnlyAfterHour",
             /\ Has(e.st.mkt, e.a.mid)
             /\ \A m \in DOMAIN pre.mkt \ DOMAIN e.st.mkt :
                   m \in DOMAIN e.a.closed_since /\ e.a.now - e.a.closed_since[m] > 3600,
             <<e.a.mid, DOMAIN pre.mkt \ DOMAIN e.st.mkt, e.a.now, e.a.closed_since>>)
       \* ... and such a market is released when the next closure is processed
       /\ Ck("C20", "LiveReleasesAfterHour",
             \A m \in DOMAIN e.a.closed_since :
                (Has(pre.mkt, m) /\ pre.mkt[m].closed /\ e.a.now - e.a.closed_since[m] > 3700) => ~Has(e.st.mkt, m),
             <<e.a.now, e.a.closed_since, DOMAIN e.st.mkt>>)

StepOK(pre, e) ==
    /\ ("C12" \in Props => P_C12(pre, e))
    /\ ("C11" \in Props => P_C11(pre, e))
    /\ ("C03" \in Props => P_C03L(pre, e))
    /\ ("C10" \in Props => P_C10L(pre, e))
    /\ ("C15" \in Props => P_C15L(pre, e))
    /\ ("C20" \in Props => P_C20L(pre, e) /\ P_C20R(pre, e) /\ P_C20F(pre, e))

Init == tid \in 1..Len(Traces) /\ l = 1
Next == /\ l < NSteps(tid)
        /\ (StepOK(S(l).st, S(l + 1)) = TRUE)
        /\ l' = l + 1
        /\ UNCHANGED tid
=============================================================================
