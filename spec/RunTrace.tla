------------------------------- MODULE RunTrace -------------------------------
(***************************************************************************)
(* Validation of whole-run summaries recorded from the real code            *)
(* (checks/runcheck.py): one case per initial state, formulas by case kind. *)
(*   merge   C14: the delivered sequence of (market, publish time) is the   *)
(*           one EventMerge!Delivery computes from the input files and the  *)
(*           listener filters; the clock seen in callbacks = publish time   *)
(*   det     C14: ledgers of repeated runs in fresh processes (different    *)
(*           hash seeds and wall-clock offsets) are identical; the real     *)
(*           clock is restored, also after an aborted run                   *)
(*   iso     C13: a strategy's ledger is the same alone, with another       *)
(*           strategy, and with the registration order swapped              *)
(*   inject  C13: with an exception injected into one callback every        *)
(*           strategy still receives every update exactly once and the      *)
(*           middleware runs before the strategies                          *)
(*   contain C13: the same for the raw-data / sports-data / custom-event    *)
(*           handlers of a live-mode framework instance                     *)
(***************************************************************************)
EXTENDS EventMerge, Json, IOUtils, TLCExt

CONSTANT Props
VARIABLES tid
Cases == JsonDeserialize(IOEnv.TRACE_FILE)
C == Cases[tid]

Viol(prop, name, detail) == PrintT(<<"VIOL", prop, name, C.id, 0, detail>>)
Ck(prop, name, cond, detail) == IF cond THEN TRUE ELSE Viol(prop, name, detail)

Count(q, x) == Cardinality({i \in DOMAIN q : q[i] = x})

\* first index at which two sequences differ (0 = equal)
FirstDiff(a, b) == IF a = b THEN 0
                   ELSE LET n == IF Len(a) < Len(b) THEN Len(a) ELSE Len(b)
                            d == {i \in 1..n : a[i] # b[i]}
                        IN IF d = {} THEN n + 1 ELSE CHOOSE i \in d : \A j \in d : i <= j

P_Merge ==
    LET pts == [m \in DOMAIN C.lines |-> Filter(C.lines[m], C.L)]
        exp == Delivery(C.groups, pts)
    IN /\ Ck("C14", "DeliveredExactlyOnceInOrder", exp = C.delivered,
             <<"first difference at", FirstDiff(exp, C.delivered), "expected", Len(exp), "delivered", Len(C.delivered)>>)
       /\ Ck("C14", "ClockEqualsPublishTime", \A i \in DOMAIN C.clocks : C.clocks[i][1] = C.clocks[i][2],
             {C.clocks[i] : i \in {j \in DOMAIN C.clocks : C.clocks[j][1] # C.clocks[j][2]}})
       /\ Ck("C14", "ChronologicalWithinGroups",
             \A k \in DOMAIN C.groups :
                LET sel == SelectSeq(C.delivered, LAMBDA x : \E j \in DOMAIN C.groups[k].streams : C.groups[k].streams[j] = x[1])
                IN (C.groups[k].group # "" /\ Len(C.groups[k].streams) > 1) => Sorted(sel), "")

P_Det ==
    /\ Ck("C14", "SameLedgerEveryRun", \A i \in DOMAIN C.runs : C.runs[i] = C.runs[1],
          {i \in DOMAIN C.runs : C.runs[i] # C.runs[1]})
    /\ Ck("C14", "ClockRestored", \A i \in DOMAIN C.restored : C.restored[i], C.restored)
    /\ Ck("C14", "ClockRestoredAfterException", C.restored_exc, C.restored_exc)

P_Iso ==
    \* each strategy is attached to a stream that applies the listener filter it asked for (streams are shared only
    \* between strategies asking for the same file and the same filter)
    /\ Ck("C13", "OwnStreamFilter", \A i \in DOMAIN C.filters : C.filters[i][2] = C.filters[i][3],
          {C.filters[i] : i \in {j \in DOMAIN C.filters : C.filters[j][2] # C.filters[j][3]}})
    /\ Ck("C13", "SameAloneAndTogether", C.solo = C.ab, <<"A alone vs A+B">>)
    /\ Ck("C13", "RegistrationOrderIrrelevant", C.ab = C.ba, <<"A+B vs B+A">>)
    /\ Ck("C13", "OtherStrategyToo", C.solo_b = C.ab_b /\ C.ab_b = C.ba_b, <<"B alone vs together">>)

P_Inject ==
    /\ Ck("C13", "EachUpdateOnce",
          /\ \A i \in DOMAIN C.expected : Count(C.delivered, C.expected[i]) = 1
          /\ \A i \in DOMAIN C.delivered : Count(C.expected, C.delivered[i]) = 1,
          <<{C.expected[i] : i \in {j \in DOMAIN C.expected : Count(C.delivered, C.expected[j]) # 1}},
            {C.delivered[i] : i \in {j \in DOMAIN C.delivered : Count(C.expected, C.delivered[j]) # 1}}>>)
    /\ Ck("C13", "DeliveryOrderKept", C.delivered = C.expected, FirstDiff(C.delivered, C.expected))
    \* order of the steps of each update: the middleware pass precedes every strategy callback
    /\ Ck("C13", "MiddlewareBeforeStrategies",
          \A i \in DOMAIN C.events :
             C.events[i][1] = "cb" =>
                \E j \in 1..(i - 1) : /\ C.events[j][1] = "mw" /\ C.events[j][2] = C.events[i][2] /\ C.events[j][3] = C.events[i][3]
                                      /\ \A k \in (j + 1)..(i - 1) : C.events[k][1] # "upd",
          "")
    /\ Ck("C13", "RunNotAborted", C.error = "", C.error)

\* live-mode handlers (raw data, sports data, custom events): nothing escapes the handler, every other
\* callback still happens exactly once and in the same order
P_Contain ==
    /\ Ck("C13", "NoExceptionEscapesHandler", C.escaped = <<>>, <<C.escaped, C.inj>>)
    /\ Ck("C13", "EachCallbackOnce",
          /\ \A i \in DOMAIN C.expected : Count(C.delivered, C.expected[i]) = 1
          /\ \A i \in DOMAIN C.delivered : Count(C.expected, C.delivered[i]) = 1,
          <<{C.expected[i] : i \in {j \in DOMAIN C.expected : Count(C.delivered, C.expected[j]) # 1}},
            {C.delivered[i] : i \in {j \in DOMAIN C.delivered : Count(C.expected, C.delivered[j]) # 1}}, C.inj>>)
    /\ Ck("C13", "CallbackOrderKept", C.delivered = C.expected, <<FirstDiff(C.delivered, C.expected), C.inj>>)

\* a file carrying several markets: whichever book is being processed, the clock shows its publish time
P_Clock ==
    /\ Ck("C14", "ClockEqualsPublishTime", \A i \in DOMAIN C.clocks : C.clocks[i][1] = C.clocks[i][2],
          {C.clocks[i] : i \in {j \in DOMAIN C.clocks : C.clocks[j][1] # C.clocks[j][2]}})
    /\ Ck("C14", "RunNotAborted", C.error = "", C.error)
    /\ Ck("C14", "EveryMarketOfTheFileDelivered", C.markets_seen = C.markets, <<C.markets_seen, C.markets>>)

CaseOK ==
    /\ (C.kind = "merge" /\ "C14" \in Props => P_Merge)
    /\ (C.kind = "det" /\ "C14" \in Props => P_Det)
    /\ (C.kind = "clock" /\ "C14" \in Props => P_Clock)
    /\ (C.kind = "iso" /\ "C13" \in Props => P_Iso)
    /\ (C.kind = "inject" /\ "C13" \in Props => P_Inject)
    /\ (C.kind = "contain" /\ "C13" \in Props => P_Contain)

Init == tid \in 1..Len(Cases) /\ (CaseOK = TRUE)
Next == UNCHANGED tid
=============================================================================
