----------------------------- MODULE Settlement -----------------------------
(***************************************************************************)
(* The exchange's settlement rules, in integer arithmetic.                  *)
(*   fragments: sequence of <<time, price (cents), size (pence)>>           *)
(*   profit unit: 1/100 pence  (pence x cents), written P4 below            *)
(* Rules (Betfair): a winning back pays stake x (price - 1), a losing back  *)
(* loses the stake, a lay is the mirror image; unmatched bets and bets on   *)
(* removed runners pay nothing; n runners dead-heating for one place pay    *)
(* stake x price / n - stake; each-way = a win bet plus a place bet at      *)
(* (price-1)/divisor + 1 (integral divisor ewd); line markets settle at even money: the back       *)
(* (sell) wins when the result is below the line, the lay (buy) when above. *)
(***************************************************************************)
EXTENDS Integers, Sequences, FiniteSets

RECURSIVE SumStake(_)
SumStake(f) == IF f = <<>> THEN 0 ELSE f[1][3] + SumStake(Tail(f))
RECURSIVE SumWin(_)      \* sum of stake x (price - 1)   [pence x cents]
SumWin(f) == IF f = <<>> THEN 0 ELSE f[1][3] * (f[1][2] - 100) + SumWin(Tail(f))
RECURSIVE SumReturn(_)   \* sum of stake x price
SumReturn(f) == IF f = <<>> THEN 0 ELSE f[1][3] * f[1][2] + SumReturn(Tail(f))

\* profit of a BACK bet with fragments f in P4 units, as a rational <<numerator, denominator>>
BackProfit(f, mtype, result, ndh, ewd, lineorder, line, lineresult) ==
    IF f = <<>> THEN <<0, 1>>
    ELSE IF lineorder
    THEN IF lineresult < 0 THEN <<0, 1>>                                 \* result unknown: not settled
         ELSE IF line > lineresult THEN <<SumStake(f) * 100, 1>>         \* even money
         ELSE IF line < lineresult THEN <<-(SumStake(f) * 100), 1>>
         ELSE <<0, 0>>                                                   \* tie: undefined here (denominator 0)
    ELSE IF mtype = "EACH_WAY"
    THEN IF result = "WINNER" THEN <<SumWin(f) * (ewd + 1), ewd>>                        \* win + place
         ELSE IF result = "PLACED" THEN <<SumWin(f) - SumStake(f) * 100 * ewd, ewd>>          \* place - stake
         ELSE IF result = "LOSER" THEN <<-(2 * SumStake(f) * 100), 1>>
         ELSE <<0, 1>>
    ELSE IF result = "WINNER"
         THEN IF ndh <= 1 THEN <<SumWin(f), 1>>
              ELSE <<SumReturn(f) - ndh * SumStake(f) * 100, ndh>>       \* stake x price / n - stake
    ELSE IF result = "LOSER" THEN <<-(SumStake(f) * 100), 1>>
    ELSE <<0, 1>>                                                        \* REMOVED / not settled

Profit(side, f, mtype, result, ndh, ewd, lineorder, line, lineresult) ==
    LET b == BackProfit(f, mtype, result, ndh, ewd, lineorder, line, lineresult)
    IN IF side = "BACK" THEN b ELSE <<-b[1], b[2]>>

Abs(x) == IF x < 0 THEN -x ELSE x
\* reported (pence) agrees with the rule within tol (pence): |reported*100*den - num| <= tol*100*den
Agrees(reported, r, tolP4) == r[2] = 0 \/ Abs(reported * 100 * r[2] - r[1]) <= tolP4 * r[2]

\* commission (pence) on a market profit (pence) at rate in 1/100 percent: only on a net win
CommissionOk(commission, profit, rate) ==
    /\ commission >= 0
    /\ (profit <= 0 => commission = 0)
    /\ (profit > 0 => Abs(commission * 10000 - profit * rate) <= 10000)
=============================================================================
