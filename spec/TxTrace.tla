------------------------------- MODULE TxTrace -------------------------------
(* C02 (packaging): request sequences issued on real Transaction objects (Betfair, simulated
   and Betdaq clients, true per-call limits) and the packages captured at
   flumine.process_order_package, judged against Transaction.tla. *)
EXTENDS Transaction, Json, IOUtils, TLCExt
CONSTANT Props
VARIABLES tid
Cases == JsonDeserialize(IOEnv.TRACE_FILE)
C == Cases[tid]
Viol(name, detail) == PrintT(<<"VIOL", "C02", name, C.id, 0, detail>>)
Ck(name, cond, detail) == IF cond THEN TRUE ELSE Viol(name, detail)

FirstDiff(a, b) == IF a = b THEN 0
                   ELSE LET n == IF Len(a) < Len(b) THEN Len(a) ELSE Len(b)
                            d == {i \in 1..n : a[i] # b[i]}
                        IN IF d = {} THEN n + 1 ELSE CHOOSE i \in d : \A j \in d : i <= j

\* the exchange's per-call instruction limits (constants of the specification, not read from the code)
ExchangeLimits(kind) ==
    IF kind = "BETDAQ" THEN [PLACE |-> 10, CANCEL |-> 10, UPDATE |-> 50, REPLACE |-> 1]
    ELSE [PLACE |-> 200, CANCEL |-> 60, UPDATE |-> 60, REPLACE |-> 60]

CaseOK ==
    LET lim == ExchangeLimits(C.exchange)
        exp == Expected(C.events, lim)
        pk == C.pkgs
    IN /\ Ck("PackagesAsSpecified", exp = pk, <<"first difference at package", FirstDiff(exp, pk), Len(exp), Len(pk)>>)
       /\ Ck("WithinLimit", WithinLimit(pk, lim), {<<pk[i][1], Len(pk[i][2])>> : i \in {j \in DOMAIN pk : Len(pk[j][2]) > lim[pk[j][1]] \/ Len(pk[j][2]) = 0}})
       /\ Ck("NothingPendingAfterExit", ~C.pending_after, C.pending_after)
       /\ Ck("RefusedUnchanged", \A i \in DOMAIN C.refused : C.refused[i].same, {C.refused[i] : i \in {j \in DOMAIN C.refused : ~C.refused[j].same}})
       /\ Ck("KindMatches", \A i \in DOMAIN pk : pk[i][1] = C.pkg_types[i], "")
Init == tid \in 1..Len(Cases) /\ (CaseOK = TRUE)
Next == UNCHANGED tid
=============================================================================
