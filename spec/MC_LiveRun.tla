------------------------------ MODULE MC_LiveRun ------------------------------
(***************************************************************************)
(* Live mode at handler granularity for one order: local status, the bet at *)
(* the exchange, the execution pool (placement / cancel packages with their *)
(* retry count), order-stream snapshots that may be processed late, twice   *)
(* or stale.  Faults: per-report SUCCESS / FAILURE / TIMEOUT, transport     *)
(* errors with retries (applied or not at the exchange).                    *)
(*   Request, PoolRun (API call + response handling, BetfairExecution),     *)
(*   ExFill, TakeSnap, ProcSnap (process_current_order)                     *)
(* Deviations of the implementation that break convergence are tagged in    *)
(* `tainted` (known findings D21: TIMEOUT / unanswered-but-applied sync      *)
(* placement is never reconciled; D13: failed placement stays in the live   *)
(* list) so that every other divergence is an error of this model.          *)
(***************************************************************************)
EXTENDS Integers, Sequences, FiniteSets, TLC

CONSTANT MaxSteps
VARIABLES st,        \* local order status: "NONE","PENDING","EXECUTABLE","CANCELLING","COMPLETE"
          betKnown,  \* local order has a bet id
          live,      \* order in the blotter's live list
          xbet,      \* exchange: "none" | "exec" | "done"
          pool,      \* sequence of [kind, retry]
          snaps,     \* sequence of exchange states captured
          lastSnapFresh, \* the last processed snapshot reflects the current exchange state and came after the last response
          calls, steps, tainted,
          last       \* history: the action taken and its choice (for replaying behaviours into the code; hidden by View)
vars == <<st, betKnown, live, xbet, pool, snaps, lastSnapFresh, calls, steps, tainted, last>>
View == <<st, betKnown, live, xbet, pool, snaps, lastSnapFresh, calls, steps, tainted>>

Init == /\ st = "NONE" /\ betKnown = FALSE /\ live = FALSE /\ xbet = "none" /\ pool = <<>> /\ snaps = <<>>
        /\ lastSnapFresh = FALSE /\ calls = 0 /\ steps = 0 /\ tainted = {}
        /\ last = [act |-> "init"]

Tick == steps' = steps + 1
Dirty == lastSnapFresh' = FALSE

Place == /\ st = "NONE" /\ steps < MaxSteps
         /\ st' = "PENDING" /\ live' = TRUE /\ pool' = Append(pool, [kind |-> "PLACE", retry |-> 0])
         /\ UNCHANGED <<betKnown, xbet, snaps, calls, tainted>> /\ Tick /\ Dirty /\ last' = [act |-> "place"]
Cancel == /\ st = "EXECUTABLE" /\ betKnown /\ steps < MaxSteps
          /\ st' = "CANCELLING" /\ pool' = Append(pool, [kind |-> "CANCEL", retry |-> 0])
          /\ UNCHANGED <<betKnown, live, xbet, snaps, calls, tainted>> /\ Tick /\ Dirty /\ last' = [act |-> "cancel"]

\* BaseOrder.executable(): complete is final
Exec(s) == IF s = "COMPLETE" THEN "COMPLETE" ELSE "EXECUTABLE"

RunPlace(p) ==
    \E oc \in {"SUCCESS", "FAILURE", "TIMEOUT", "TIMEOUT_PLACED", "RAISE", "RAISE_APPLIED"} :
      /\ calls' = calls + 1 /\ last' = [act |-> "run", kind |-> "PLACE", oc |-> oc, placed |-> xbet # "none"]
      /\ IF oc = "SUCCESS"
         THEN /\ xbet' = IF xbet = "none" THEN "exec" ELSE xbet     \* repeated customerRef is not applied twice
              /\ st' = Exec(st) /\ betKnown' = TRUE /\ pool' = Tail(pool) /\ UNCHANGED <<live, tainted>>
         ELSE IF oc = "FAILURE"
         THEN /\ st' = "COMPLETE" /\ pool' = Tail(pool) /\ UNCHANGED <<xbet, betKnown, live>>
              /\ tainted' = IF xbet = "none" THEN tainted \cup {"D13"} ELSE tainted \cup {"D13", "D21"}
         ELSE IF oc \in {"TIMEOUT", "TIMEOUT_PLACED"}
         THEN /\ xbet' = IF oc = "TIMEOUT_PLACED" /\ xbet = "none" THEN "exec" ELSE xbet
              /\ pool' = Tail(pool) /\ UNCHANGED <<st, betKnown, live>>
              /\ tainted' = tainted \cup {"D21"}
         ELSE \* transport / API error: retry up to 3 times, then reset_orders(complete=True)
              /\ xbet' = IF oc = "RAISE_APPLIED" /\ xbet = "none" THEN "exec" ELSE xbet
              /\ IF p.retry < 3
                 THEN pool' = Append(Tail(pool), [p EXCEPT !.retry = @ + 1]) /\ UNCHANGED <<st, tainted>>
                 ELSE pool' = Tail(pool) /\ st' = "COMPLETE" /\ tainted' = tainted \cup {"D13", "D21"}
              /\ UNCHANGED <<betKnown, live>>

RunCancel(p) ==
    \E oc \in {"SUCCESS", "FAILURE", "TIMEOUT", "RAISE"} :
      /\ calls' = calls + 1 /\ last' = [act |-> "run", kind |-> "CANCEL", oc |-> oc, placed |-> TRUE]
      /\ IF oc = "SUCCESS"
         THEN IF xbet = "exec"
              THEN xbet' = "done" /\ st' = "COMPLETE" /\ pool' = Tail(pool)
              ELSE xbet' = xbet /\ st' = "COMPLETE" /\ pool' = Tail(pool)      \* BET_TAKEN_OR_LAPSED: complete
         ELSE IF oc \in {"FAILURE", "TIMEOUT"}
         THEN xbet' = xbet /\ st' = Exec(st) /\ pool' = Tail(pool)
         ELSE /\ xbet' = xbet
              /\ IF p.retry < 3 THEN pool' = Append(Tail(pool), [p EXCEPT !.retry = @ + 1]) /\ st' = st
                 ELSE pool' = Tail(pool) /\ st' = Exec(st)
      /\ UNCHANGED <<betKnown, live, tainted>>

PoolRun == /\ pool # <<>> /\ steps < MaxSteps
           /\ LET p == Head(pool) IN IF p.kind = "PLACE" THEN RunPlace(p) ELSE RunCancel(p)
           /\ UNCHANGED snaps /\ Tick /\ Dirty

ExFill == /\ xbet = "exec" /\ steps < MaxSteps /\ xbet' = "done"
          /\ UNCHANGED <<st, betKnown, live, pool, snaps, calls, tainted>> /\ Tick /\ Dirty /\ last' = [act |-> "fill"]
TakeSnap == /\ steps < MaxSteps /\ Len(snaps) < 3 /\ snaps' = Append(snaps, xbet)
            /\ UNCHANGED <<st, betKnown, live, xbet, pool, calls, tainted, lastSnapFresh>> /\ Tick /\ last' = [act |-> "snap"]

\* process_current_orders / process_current_order for a snapshot showing exchange state x
ProcSnap ==
    /\ steps < MaxSteps
    /\ \E i \in DOMAIN snaps :
         LET x == snaps[i]
             fresh == i = Len(snaps) /\ x = xbet
         IN /\ IF x = "none" \/ st = "NONE" THEN UNCHANGED <<st, live>>
               ELSE LET s2 == IF betKnown /\ st = "PENDING" THEN (IF x = "exec" THEN "EXECUTABLE" ELSE "COMPLETE")
                              ELSE IF st = "EXECUTABLE" /\ x = "done" THEN "COMPLETE" ELSE st
                    IN st' = s2 /\ live' = IF s2 = "COMPLETE" THEN FALSE ELSE live
            /\ lastSnapFresh' = (fresh /\ (lastSnapFresh \/ TRUE))
            /\ last' = [act |-> "proc", i |-> i]
    /\ UNCHANGED <<betKnown, xbet, pool, snaps, calls, tainted>> /\ Tick

Next == Place \/ Cancel \/ PoolRun \/ ExFill \/ TakeSnap \/ ProcSnap
Spec == Init /\ [][Next]_vars

Quiescent == pool = <<>> /\ lastSnapFresh
Inv_NoneStranded == (pool = <<>>) => (st \in {"NONE", "EXECUTABLE", "COMPLETE"} \/ (st = "PENDING" /\ "D21" \in tainted))
Inv_RetriesBounded == \A i \in DOMAIN pool : pool[i].retry <= 3
Inv_ConvergedAtQuiescence ==
    Quiescent =>
       /\ ("D21" \notin tainted => ((st = "COMPLETE") <=> (xbet = "done" \/ (xbet = "none" /\ st = "COMPLETE"))))
       /\ ("D21" \notin tainted /\ xbet = "exec" => st = "EXECUTABLE" /\ betKnown)
       /\ ("D13" \notin tainted /\ st = "COMPLETE" => ~live)
Reach_CompleteByStream == ~(st = "COMPLETE" /\ xbet = "done" /\ ~live /\ tainted = {})
=============================================================================
