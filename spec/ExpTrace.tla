------------------------------- MODULE ExpTrace -------------------------------
(* C16: exposure figures returned by the real Blotter for positions built from real order
   objects, judged against the brute-force worst case of Exposure.tla.  One case per state. *)
EXTENDS Exposure, Json, IOUtils, TLCExt
CONSTANT Props
VARIABLES tid
Cases == JsonDeserialize(IOEnv.TRACE_FILE)
C == Cases[tid]
Viol(name, detail) == PrintT(<<"VIOL", "C16", name, C.id, 0, detail>>)
Ck(name, cond, detail) == IF cond THEN TRUE ELSE Viol(name, detail)
AbsV(x) == IF x < 0 THEN -x ELSE x
\* code values are pence; brute values P4; tolerance 1 penny per order in the position + 1
Close(codeP, bruteP4, n) == AbsV(codeP * 100 - bruteP4) <= (n + 1) * 100

NOrders(bysel) == Sum(DOMAIN bysel, LAMBDA r : Cardinality(DOMAIN bysel[r]))
Without(pos, k) == [j \in DOMAIN pos \ {k} |-> pos[j]]

CaseOK ==
    /\ \A r \in DOMAIN C.bysel :
         LET pos == C.bysel[r]  n == Cardinality(DOMAIN pos)  got == C.code.sel[r] IN
         /\ Ck("SelectionWin", Close(got.win, BruteWin(pos), n), <<r, got.win, BruteWin(pos)>>)
         /\ Ck("SelectionLose", Close(got.lose, BruteLose(pos), n), <<r, got.lose, BruteLose(pos)>>)
         /\ Ck("SelectionExposure", Close(got.exposure, SelectionLoss(pos) , n), <<r, got.exposure, SelectionLoss(pos)>>)
         \* an exclusion is handled as if the order had been removed from the book
         /\ \A k \in DOMAIN got.excl :
               LET p2 == Without(pos, k) IN
               Ck("ExclusionIsRemoval",
                  Close(got.excl[k].win, BruteWin(p2), n) /\ Close(got.excl[k].lose, BruteLose(p2), n),
                  <<r, k, got.excl[k], BruteWin(p2), BruteLose(p2)>>)
    \* a prospective new order is handled as if it had been added
    /\ (C.neworder.sel # "" =>
          LET r == C.neworder.sel
              base == IF r \in DOMAIN C.bysel THEN C.bysel[r] ELSE <<>>
              p2 == [k \in DOMAIN base \cup {"#new"} |-> IF k = "#new" THEN C.neworder.o ELSE base[k]]
          IN Ck("NewOrderIsAddition",
                Close(C.code.neworder.win, BruteWin(p2), Cardinality(DOMAIN p2))
                /\ Close(C.code.neworder.lose, BruteLose(p2), Cardinality(DOMAIN p2)),
                <<r, C.code.neworder, BruteWin(p2), BruteLose(p2)>>))
    /\ Ck("MarketExposure",
          Close(C.code.market, MarketBrute(C.bysel, C.nactive, C.nwin), NOrders(C.bysel)),
          <<C.code.market, MarketBrute(C.bysel, C.nactive, C.nwin), C.nactive, C.nwin>>)

Init == tid \in 1..Len(Cases) /\ (CaseOK = TRUE)
Next == UNCHANGED tid
=============================================================================
