------------------------------- MODULE Exposure -------------------------------
(***************************************************************************)
(* Worst-case profit of a strategy's position, two ways:                    *)
(*   Brute*     by definition: minimum over every subset of the open orders *)
(*              filling (each fully, at its limit price, or not at all),    *)
(*              for the selection winning and losing; for the market the    *)
(*              minimum over every admissible set of winning runners        *)
(*   Reported*  the closed form used by Blotter.get_exposures /             *)
(*              market_exposure (matched + all lays on win, all backs on    *)
(*              lose; worst differences for the market)                     *)
(* and the risk gate of StrategyExposure._validate.                         *)
(* Orders are SimCore order records (+ lad = price ladder).  Amounts in     *)
(* P4 = pence x cents (1/100 of a penny).                                   *)
(***************************************************************************)
EXTENDS Integers, Sequences, FiniteSets, TLC

ERem(o) == IF o.type = "LIMIT" THEN o.size - o.m - o.can - o.lap - o.void ELSE 0

Counted(o) == o.status \notin {"NONE", "PENDING", "VIOLATION", "EXPIRED"}
IsSP(o) == o.type # "LIMIT"
PriceOf(o) == IF o.lad = "LINE_RANGE" THEN 200 ELSE o.price
AvgOf(o) == IF o.lad = "LINE_RANGE" THEN 200 ELSE o.avg
IsOpen(o) == Counted(o) /\ ~IsSP(o) /\ ~o.cplt /\ ERem(o) > 0 /\ PriceOf(o) > 0

MatchedWin(o) == IF IsSP(o) \/ o.m = 0 THEN 0
                 ELSE IF o.side = "BACK" THEN o.m * (AvgOf(o) - 100) ELSE -(o.m * (AvgOf(o) - 100))
MatchedLose(o) == IF IsSP(o) \/ o.m = 0 THEN 0
                  ELSE IF o.side = "BACK" THEN -(o.m * 100) ELSE o.m * 100
FillWin(o) == IF o.side = "BACK" THEN ERem(o) * (PriceOf(o) - 100) ELSE -(ERem(o) * (PriceOf(o) - 100))
FillLose(o) == IF o.side = "BACK" THEN -(ERem(o) * 100) ELSE ERem(o) * 100
\* starting price orders count with their liability (size field) on the side that can lose
SpWin(o) == IF IsSP(o) /\ o.side = "LAY" THEN -(o.size * 100) ELSE 0
SpLose(o) == IF IsSP(o) /\ o.side = "BACK" THEN -(o.size * 100) ELSE 0

Sum(S, F(_)) ==
    LET RECURSIVE go(_)
        go(U) == IF U = {} THEN 0 ELSE LET x == CHOOSE y \in U : TRUE IN F(x) + go(U \ {x})
    IN go(S)
MinOf(S) == CHOOSE x \in S : \A y \in S : x <= y

\* pos: function label -> order record (orders of one strategy on one selection)
CountedSet(pos) == {k \in DOMAIN pos : Counted(pos[k])}
OpenSet(pos) == {k \in DOMAIN pos : IsOpen(pos[k])}

BruteWin(pos) ==
    Sum(CountedSet(pos), LAMBDA k : MatchedWin(pos[k]) + SpWin(pos[k]))
      + MinOf({Sum(F, LAMBDA k : FillWin(pos[k])) : F \in SUBSET OpenSet(pos)})
BruteLose(pos) ==
    Sum(CountedSet(pos), LAMBDA k : MatchedLose(pos[k]) + SpLose(pos[k]))
      + MinOf({Sum(F, LAMBDA k : FillLose(pos[k])) : F \in SUBSET OpenSet(pos)})

ReportedWin(pos) ==
    Sum(CountedSet(pos), LAMBDA k : MatchedWin(pos[k]) + SpWin(pos[k]))
      + Sum({k \in OpenSet(pos) : pos[k].side = "LAY"}, LAMBDA k : FillWin(pos[k]))
ReportedLose(pos) ==
    Sum(CountedSet(pos), LAMBDA k : MatchedLose(pos[k]) + SpLose(pos[k]))
      + Sum({k \in OpenSet(pos) : pos[k].side = "BACK"}, LAMBDA k : FillLose(pos[k]))

\* selection exposure: the worst-case loss (>= 0)
SelectionLoss(pos) == LET w == BruteWin(pos)  l == BruteLose(pos)
                          worst == IF w < l THEN w ELSE l
                      IN IF worst < 0 THEN -worst ELSE 0

\* ---- market: bySel = function selection -> position; nActive, nWin from the market book
MarketBrute(bySel, nActive, nWin) ==
    LET R == DOMAIN bySel
        z == IF nActive - Cardinality(R) > 0 THEN nActive - Cardinality(R) ELSE 0
        total == Cardinality(R) + z
        want == IF nWin < total THEN nWin ELSE total
        \* k winners among the runners with bets, the rest among runners without bets (no P&L)
        ks == {k \in 0..Cardinality(R) : want - k >= 0 /\ want - k <= z}
    IN MinOf({Sum(W, LAMBDA r : BruteWin(bySel[r])) + Sum(R \ W, LAMBDA r : BruteLose(bySel[r])) :
                 W \in {X \in SUBSET R : Cardinality(X) \in ks}})

RECURSIVE SortAscSeq(_)
SortAscSeq(B) ==   \* B: a bag given as a set of <<tag, value>>; ascending by value
    IF B = {} THEN <<>>
    ELSE LET x == CHOOSE y \in B : \A w \in B : y[2] <= w[2] IN <<x[2]>> \o SortAscSeq(B \ {x})
RECURSIVE SumFirst(_, _)
SumFirst(q, n) == IF n <= 0 \/ q = <<>> THEN 0 ELSE Head(q) + SumFirst(Tail(q), n - 1)

ZNames == <<"#z1", "#z2", "#z3", "#z4", "#z5", "#z6", "#z7", "#z8", "#z9", "#z10", "#z11", "#z12">>
MarketReported(bySel, nActive, nWin) ==     \* Blotter.market_exposure
    LET R == DOMAIN bySel
        z == IF nActive - Cardinality(R) > 0 THEN nActive - Cardinality(R) ELSE 0
        diffs == {<<r, ReportedWin(bySel[r]) - ReportedLose(bySel[r])>> : r \in R} \cup {<<ZNames[i], 0>> : i \in 1..z}
    IN Sum(R, LAMBDA r : ReportedLose(bySel[r])) + SumFirst(SortAscSeq(diffs), nWin)

\* ---- the risk gate (StrategyExposure._validate); limits in pence, -1 = not set
\* exposure of the order itself, counted in full at the price it will rest at (P4)
OrderExposure(o, price) ==
    IF o.type # "LIMIT" THEN o.size * 100
    ELSE IF o.lad = "LINE_RANGE" THEN o.size * 100
    ELSE IF o.side = "BACK" THEN o.size * 100 ELSE o.size * (price - 100)

=============================================================================
