----------------------------- MODULE MC_Exposure -----------------------------
(* Exhaustive: for every position of <= MaxOrders orders per selection over a small attribute
   space (side x type x ladder x status x matched/remaining split x price) the closed form
   used by the implementation equals the brute-force worst case; for every market of
   <= 3 selections with bets the market figure equals the minimum over admissible winner sets. *)
EXTENDS Exposure

CONSTANTS MaxOrders, Mode
VARIABLES pos, bysel, nActive, nWin, step
vars == <<pos, bysel, nActive, nWin, step>>

Mk(side, type, lad, status, m, rem, price, avg) ==
    [side |-> side, type |-> type, lad |-> lad, status |-> status,
     cplt |-> status \in {"COMPLETE", "VIOLATION", "EXPIRED"},
     size |-> m + rem, m |-> m, can |-> 0, lap |-> 0, void |-> 0, price |-> price, avg |-> avg]

OrderSpace ==
    {Mk(sd, "LIMIT", ld, st, m, r, p, a) :
        sd \in {"BACK", "LAY"}, ld \in {"CLASSIC", "LINE_RANGE"},
        st \in {"PENDING", "EXECUTABLE", "CANCELLING", "COMPLETE", "VIOLATION"},
        m \in {0, 200}, r \in {0, 300}, p \in {150, 400}, a \in {210}}
    \cup {Mk(sd, ty, "CLASSIC", st, 0, 500, 300, 0) :
        sd \in {"BACK", "LAY"}, ty \in {"LIMIT_ON_CLOSE", "MARKET_ON_CLOSE"}, st \in {"PENDING", "EXECUTABLE", "COMPLETE"}}

SmallSpace == {o \in OrderSpace : o.lad = "CLASSIC" /\ o.status \in {"EXECUTABLE", "COMPLETE"} /\ (o.m + ERem(o) > 0 \/ o.type # "LIMIT")}

Init ==
    /\ step = 0
    /\ IF Mode = "selection"
       THEN /\ \E n \in 0..MaxOrders : pos \in [1..n -> OrderSpace]
            /\ bysel = <<>> /\ nActive = 0 /\ nWin = 0
       ELSE /\ pos = <<>>
            /\ \E R \in (SUBSET {"r1", "r2", "r3"}) \ {{}} : bysel \in [R -> [1..1 -> SmallSpace]]
            /\ nActive \in 1..4 /\ nWin \in 1..3
Next == step = 0 /\ step' = 1 /\ UNCHANGED <<pos, bysel, nActive, nWin>>
Spec == Init /\ [][Next]_vars

Inv_ReportedEqualsBrute ==
    Mode = "selection" => (ReportedWin(pos) = BruteWin(pos) /\ ReportedLose(pos) = BruteLose(pos))
Inv_PendingAndRefusedLeftOut ==
    Mode = "selection" =>
        LET kept == [k \in {j \in DOMAIN pos : pos[j].status \notin {"PENDING", "VIOLATION"}} |-> pos[k]]
        IN BruteWin(pos) = BruteWin(kept) /\ BruteLose(pos) = BruteLose(kept)
Inv_NewOrderIsAddition ==   \* adding an order can only lower (or keep) each worst case
    Mode = "selection" => \A k \in DOMAIN pos :
        LET without == [j \in DOMAIN pos \ {k} |-> pos[j]]
        IN BruteWin(pos) <= BruteWin(without) + (IF MatchedWin(pos[k]) > 0 THEN MatchedWin(pos[k]) ELSE 0)
Inv_MarketReportedEqualsBrute ==
    Mode = "market" => MarketReported(bysel, nActive, nWin) = MarketBrute(bysel, nActive, nWin)
=============================================================================
