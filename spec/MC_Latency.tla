----------------------------- MODULE MC_Latency -----------------------------
(***************************************************************************)
(* The latency machinery of simulation mode over SEVERAL markets read from  *)
(* one recorded file (FlumineSimulation._process_market_books /             *)
(* _check_pending_packages, BaseEvent.elapsed_seconds,                      *)
(* BaseOrderPackage.simulated_delay):                                       *)
(*   - every message of the file carries a new book for ONE market; the     *)
(*     stream re-delivers the last book of every other market it has seen,  *)
(*     each with its own (old) publish time, in the order the markets first *)
(*     appeared                                                             *)
(*   - for every delivered book: the clock is set to the book's publish     *)
(*     time, the pending packages OF THAT MARKET whose age exceeds their     *)
(*     delay are executed against the market's previous book, the market    *)
(*     takes the book, the strategy is called - and may send a request for  *)
(*     ANY market it knows (a hedge on another market of the event)         *)
(* With Redeliver = FALSE the same machinery is driven the way an event    *)
(* group of per-market files is (one book per message, clock monotone).     *)
(* Times are in units of 100 ms; latencies: place 1 unit, cancel 2 units.   *)
(* Checked (C07): a request takes effect at the first NEW update of its own *)
(* market that lies more than the latency after the request, never on a     *)
(* re-delivered book, never earlier, against the state before that update;  *)
(* no acknowledgement precedes request time + latency.                      *)
(* `last` (hidden by View) carries the step's choices for replay into the   *)
(* real FlumineSimulation (harness/replay_lat.py).                          *)
(***************************************************************************)
EXTENDS Integers, Sequences, FiniteSets, TLC

CONSTANTS Redeliver,   \* TRUE: one file carrying all markets (every message re-delivers the other markets' last books);
                       \* FALSE: one file per market, merged by time into an event group (only the new book is delivered)
          Markets,     \* e.g. {"1.100000001", "1.100000002"}
          MaxTime,     \* messages arrive at strictly increasing times <= MaxTime
          MaxReqs      \* requests the strategy sends in a run
VARIABLES st, nreq, last
vars == <<st, nreq, last>>
View == <<st, nreq>>

Has(f, k) == k \in DOMAIN f
SeqToSet(q) == {q[i] : i \in DOMAIN q}
DelayOf(kind) == IF kind = "PLACE" THEN 1 ELSE 2
Labels == <<"o1", "o2", "o3">>
OrderLabels == {Labels[i] : i \in DOMAIN Labels}

InitSt == [clock |-> 0,
           cached |-> <<>>,                      \* markets in the order of their first message
           mpt |-> [m \in Markets |-> 0],        \* publish time of the book each market holds (0: none yet)
           hist |-> [m \in Markets |-> {}],      \* times of the NEW books of each market
           hq |-> <<>>,                          \* pending packages [kind, o, mid, created, delay]
           ord |-> <<>>,                         \* o -> [mid, status, created, placed]
           log |-> <<>>]                         \* executions [kind, o, mid, created, delay, at, book, fresh]
Init == st = InitSt /\ nreq = 0 /\ last = [act |-> "init"]

-----------------------------------------------------------------------------
\* BaseEvent.elapsed_seconds > simulated_delay, on the clock of the book being processed
Due(p, m, now) == p.mid = m /\ now - p.created > p.delay

Execute(s, p, now, fresh) ==
    LET s1 == IF p.kind = "PLACE"
              THEN [s EXCEPT !.ord[p.o].status = "EXECUTABLE", !.ord[p.o].placed = now]
              ELSE [s EXCEPT !.ord[p.o].status = IF @ = "CANCELLING" THEN "COMPLETE" ELSE @]
    IN [s1 EXCEPT !.log = Append(@, [kind |-> p.kind, o |-> p.o, mid |-> p.mid, created |-> p.created, delay |-> p.delay,
                                     at |-> now, book |-> s.mpt[p.mid], fresh |-> fresh])]
RECURSIVE RunDue(_, _, _, _, _)
RunDue(s, i, m, now, fresh) ==       \* the packages of market m, in queue order
    IF i > Len(s.hq) THEN [s EXCEPT !.hq = SelectSeq(s.hq, LAMBDA p : ~Due(p, m, now))]
    ELSE RunDue(IF Due(s.hq[i], m, now) THEN Execute(s, s.hq[i], now, fresh) ELSE s, i + 1, m, now, fresh)

\* a request of the strategy while it is shown a book (req = [kind |-> "NONE"] for none)
Request(s, req) ==
    IF req.kind = "PLACE"
    THEN [s EXCEPT !.ord = [k \in DOMAIN s.ord \cup {req.o} |->
                               IF k = req.o THEN [mid |-> req.mid, status |-> "PENDING", created |-> s.clock, placed |-> -1] ELSE s.ord[k]],
                   !.hq = Append(@, [kind |-> "PLACE", o |-> req.o, mid |-> req.mid, created |-> s.clock, delay |-> DelayOf("PLACE")])]
    ELSE IF req.kind = "CANCEL" /\ Has(s.ord, req.o) /\ s.ord[req.o].status = "EXECUTABLE"
    THEN [s EXCEPT !.ord[req.o].status = "CANCELLING",
                   !.hq = Append(@, [kind |-> "CANCEL", o |-> req.o, mid |-> s.ord[req.o].mid, created |-> s.clock, delay |-> DelayOf("CANCEL")])]
    ELSE s

\* one delivered book of market m with publish time pt (fresh: the message's own market)
ProcBook(s, m, pt, fresh, req) ==
    LET s1 == [s EXCEPT !.clock = pt]
        s2 == RunDue(s1, 1, m, pt, fresh)
        s3 == [s2 EXCEPT !.mpt[m] = pt, !.hist[m] = IF fresh THEN @ \cup {pt} ELSE @]
    IN IF fresh THEN Request(s3, req) ELSE s3
RECURSIVE ProcBooks(_, _, _, _, _)
ProcBooks(s, ms, m, t, req) ==
    IF ms = <<>> THEN s
    ELSE LET k == Head(ms) IN ProcBooks(ProcBook(s, k, IF k = m THEN t ELSE s.mpt[k], k = m, req), Tail(ms), m, t, req)

Message(m, t, req) ==
    LET s0 == IF m \in SeqToSet(st.cached) THEN st ELSE [st EXCEPT !.cached = Append(@, m)]
    IN ProcBooks(s0, IF Redeliver THEN s0.cached ELSE <<m>>, m, t, req)

LastTime == LET S == {st.mpt[m] : m \in Markets} IN CHOOSE x \in S : \A y \in S : y <= x
NewLabel == Labels[Cardinality(DOMAIN st.ord) + 1]
Known(m, fresh) == st.mpt[m] > 0 \/ m = fresh          \* markets the framework holds when the strategy is called
Reqs(m) ==
    {[kind |-> "NONE"]}
    \cup (IF nreq < MaxReqs /\ Cardinality(DOMAIN st.ord) < Cardinality(OrderLabels)
          THEN {[kind |-> "PLACE", o |-> NewLabel, mid |-> k] : k \in {x \in Markets : Known(x, m)}} ELSE {})
    \cup (IF nreq < MaxReqs THEN {[kind |-> "CANCEL", o |-> o] : o \in {x \in DOMAIN st.ord : st.ord[x].status = "EXECUTABLE"}} ELSE {})

Next == \E m \in Markets, t \in (LastTime + 1)..MaxTime : \E req \in Reqs(m) :
           \* (a cancel is accepted against the status the order has when the strategy is called, i.e. after the
           \*  packages of this message's market have run; a request that would be rejected is not sent)
           /\ (req.kind = "CANCEL" => LET s1 == Message(m, t, [kind |-> "NONE"]) IN s1.ord[req.o].status = "EXECUTABLE")
           /\ st' = Message(m, t, req)
           /\ nreq' = IF req.kind = "NONE" THEN nreq ELSE nreq + 1
           /\ last' = [act |-> "msg", m |-> m, t |-> t, req |-> req]
Spec == Init /\ [][Next]_vars

-----------------------------------------------------------------------------
Recs == SeqToSet(st.log)
\* no free speed: nothing is executed before its latency has passed on the clock of its own market's update
Inv_C07_ExecutedWhenDue == \A r \in Recs : r.at - r.created > r.delay
\* ... and it takes effect at the FIRST new update of its market beyond the latency
Inv_C07_FirstUpdateBeyondLatency ==
    \A r \in Recs : \A u \in st.hist[r.mid] : (u - r.created > r.delay) => u >= r.at
\* nothing due survives the update of its market
Inv_C07_NoDueLeft == \A i \in DOMAIN st.hq : ~(st.mpt[st.hq[i].mid] - st.hq[i].created > st.hq[i].delay)
\* a re-delivered (unchanged) book of another market never makes a request take effect
Inv_C07_RedeliveryInert == \A r \in Recs : r.fresh
\* executed against the market state that prevailed immediately before that update (no look-ahead)
Inv_C07_PreviousBook == \A r \in Recs : r.book < r.at /\ (r.book = 0 \/ r.book \in st.hist[r.mid])
                                         /\ \A u \in st.hist[r.mid] : u < r.at => u <= r.book
\* no acknowledgement precedes request time + latency
Inv_C07_Timestamps == \A o \in DOMAIN st.ord : st.ord[o].placed >= 0 => st.ord[o].placed > st.ord[o].created + DelayOf("PLACE")
TypeOK == st.clock \in 0..MaxTime /\ \A o \in DOMAIN st.ord : st.ord[o].status \in {"PENDING", "EXECUTABLE", "CANCELLING", "COMPLETE"}

\* witnesses (each must be reachable)
Reach_CrossMarketExec == ~(\E r \in Recs : \E i \in DOMAIN st.log : st.log[i] = r /\ r.book > 0 /\ r.book < r.created)   \* matched against a book older than the request
Reach_ClockStepsBack == ~(Redeliver => \E m \in Markets : st.mpt[m] > 0 /\ st.clock < LastTime)
Reach_CancelExecuted == ~(\E o \in DOMAIN st.ord : st.ord[o].status = "COMPLETE")
=============================================================================
