----------------------------- MODULE MC_SimCore -----------------------------
(***************************************************************************)
(* Design model of flumine's simulation mode built on SimCore!Step: TLC     *)
(* explores every interleaving of strategy requests (place / cancel /       *)
(* update / replace, accepted, refused by a control or rejected by a guard),*)
(* latency release of the pending packages, engine outcomes (fail, rest,    *)
(* partial / full fill), market events (suspension with lapse, runner       *)
(* removal with void, re-open) and the sweep, for a small universe of       *)
(* orders, and checks the SimProps formulas in every reachable state.       *)
(*                                                                          *)
(* Abstractions: one market, one runner, sizes in units (order size =       *)
(* Size), no fragments / queue position (SimMatch.tla), control verdicts    *)
(* nondeterministic where SimCore!Expected says "ANY".                      *)
(***************************************************************************)
EXTENDS SimProps

CONSTANTS Orders,      \* labels of orders the strategy may create, e.g. {"o1","o2"}
          TradeOf,     \* function Orders -> trade label (two orders may share a trade)
          Size,        \* order size in units
          MaxClock,    \* updates happen at clock 1..MaxClock
          MaxReqs,     \* bound on strategy requests per behaviour
          AllowReplace \* BOOLEAN

VARIABLES s,      \* the SimCore state record
          pc,     \* phase of the update loop
          nreq,   \* requests made so far
          tainted \* trades touched by a named deviation of the implementation (known finding
                  \* D16: an order placed into a trade that is already COMPLETE does not make
                  \* the trade live again)

vars == <<s, pc, nreq, tainted>>

Mid == "M"
Client == "c1"
Rck == "A|M|1"

Lat == [PLACE |-> 1, CANCEL |-> 1, UPDATE |-> 1, REPLACE |-> 1]

RLab(o) == IF o = "o1" THEN "o1r" ELSE IF o = "o2" THEN "o2r" ELSE "xr"
AllLabels == Orders \cup {RLab(o) : o \in Orders}

InitMkt == [status |-> "OPEN", version |-> 1, inplay |-> FALSE, betdelay |-> 0,
            bsprec |-> FALSE, closed |-> FALSE, pt |-> 0, removed |-> <<>>, nactive |-> 2, nwin |-> 1]

Init ==
    /\ s = [clock |-> 0, ord |-> <<>>, trd |-> <<>>, rc |-> <<>>,
            mkt |-> (Mid :> InitMkt), hq |-> <<>>, tx |-> (Client :> [tot |-> 0, totf |-> 0])]
    /\ pc = "idle"
    /\ nreq = 0
    /\ tainted = {}

-----------------------------------------------------------------------------
(* environment: next update *)
Upd ==
    /\ pc = "idle" /\ s.clock < MaxClock
    /\ s' = Step(s, [ev |-> "upd", a |-> [pt |-> s.clock + 1, mid |-> Mid]], <<>>)
    /\ pc' = "pend"
    /\ UNCHANGED <<nreq, tainted>>

(* release of due packages, in queue order *)
FirstDue(st) ==
    IF \E i \in DOMAIN st.hq : Due(st, st.hq[i], Mid)
    THEN CHOOSE i \in DOMAIN st.hq : Due(st, st.hq[i], Mid) /\ \A j \in DOMAIN st.hq : Due(st, st.hq[j], Mid) => i <= j
    ELSE 0

\* engine outcome menu for a placement of order o (units): <<ok, matched, lapsed, voided>>
PlaceOutcomes(o) ==
    IF ~MktOpen(s, Mid) \/ s.mkt[Mid].removed # <<>>     \* market not open / runner removed: voided
    THEN {[ok |-> FALSE, m |-> 0, lap |-> 0, void |-> Rem(s.ord[o]), can |-> 0]}
    ELSE {[ok |-> TRUE, m |-> f, lap |-> 0, void |-> 0, can |-> 0] : f \in 0..Rem(s.ord[o])}
         \cup {[ok |-> FALSE, m |-> 0, lap |-> Rem(s.ord[o]), void |-> 0, can |-> 0]}   \* version mismatch / BPE lapse
         \cup {[ok |-> TRUE, m |-> 0, lap |-> 0, void |-> 0, can |-> Rem(s.ord[o])]}    \* fill-or-kill killed

OracleOrd(o, oc) ==
    [s.ord[o] EXCEPT !.m = @ + oc.m, !.lap = @ + oc.lap, !.void = @ + oc.void, !.can = @ + oc.can, !.bet = oc.ok,
                     !.mver = s.mkt[Mid].version]

Exec ==
    /\ pc = "pend"
    /\ LET i == FirstDue(s) IN
       /\ i > 0
       /\ LET p == s.hq[i]
              e == [ev |-> "exec", a |-> [kind |-> p.kind, orders |-> p.orders, client |-> Client,
                                          qi |-> i, persok |-> TRUE, created |-> p.created,
                                          rlab |-> [o \in SeqToSet(p.orders) |-> RLab(o)]]]
          IN IF p.kind = "PLACE"
             THEN \E oc \in PlaceOutcomes(p.orders[1]) :
                    s' = Step(s, e, [ord |-> (p.orders[1] :> OracleOrd(p.orders[1], oc)), rlab |-> <<>>])
             ELSE IF p.kind = "REPLACE"
             THEN LET o == p.orders[1]
                      r == RLab(o)
                      base == [NewReplacement(s, o, r, s.ord[o].newp, Rem(s.ord[o]), p.created) EXCEPT !.mver = s.mkt[Mid].version]
                  IN \E ok \in (IF MktOpen(s, Mid) /\ s.mkt[Mid].removed = <<>> THEN BOOLEAN ELSE {FALSE}) :
                     \E f \in 0..Rem(s.ord[o]) :
                       s' = Step(s, e, [ord |-> (r :> [base EXCEPT !.bet = ok,
                                                             !.m = IF ok THEN f ELSE 0,
                                                             !.lap = IF ok THEN 0 ELSE Rem(s.ord[o])]),
                                        rlab |-> (o :> r)])
             ELSE s' = Step(s, e, [ord |-> <<>>, rlab |-> <<>>])
    /\ UNCHANGED <<pc, nreq, tainted>>

PendDone ==
    /\ pc = "pend" /\ FirstDue(s) = 0
    /\ s' = Step(s, [ev |-> "pend", a |-> [mid |-> Mid]], <<>>)
    /\ pc' = "mw"
    /\ UNCHANGED <<nreq, tainted>>

(* middleware: new book (status / version), passive fills, suspension lapse, removal void *)
MwOutcome(o, newstatus, newversion, removed) ==
    LET r == s.ord[o] IN
    IF removed /\ r.inbl
    THEN {[r EXCEPT !.m = 0, !.can = 0, !.lap = 0, !.void = r.size]}
    ELSE IF ~(r.status \in MatchSt) THEN {r}
    ELSE IF newversion # r.mver /\ newstatus = "SUSPENDED" /\ r.pers = "LAPSE"
         THEN {[r EXCEPT !.lap = @ + Rem(r), !.mver = newversion]}
         ELSE {[r EXCEPT !.m = @ + f, !.mver = newversion] : f \in 0..Rem(r)}

Mw ==
    /\ pc = "mw"
    /\ \E newstatus \in {"OPEN", "SUSPENDED"} : \E bump \in BOOLEAN : \E removed \in BOOLEAN :
         LET nv == IF bump THEN s.mkt[Mid].version + 1 ELSE s.mkt[Mid].version
             os == {o \in DOMAIN s.ord : s.ord[o].inbl}
         IN /\ (removed => bump)
            /\ nv <= 3
            /\ \E f \in [os -> UNION {MwOutcome(o, newstatus, nv, removed) : o \in os}] :
                 /\ \A o \in os : f[o] \in MwOutcome(o, newstatus, nv, removed)
                 /\ s' = Step(s, [ev |-> "mw", a |-> [mid |-> Mid]],
                              [ord |-> f, mkt |-> (Mid :> [s.mkt[Mid] EXCEPT !.status = newstatus, !.version = nv,
                                                                           !.pt = s.clock,
                                                                           !.removed = IF removed THEN <<"1">> ELSE @])])
    /\ pc' = "sweep"
    /\ UNCHANGED <<nreq, tainted>>

Sweep ==
    /\ pc = "sweep"
    /\ s' = Step(s, [ev |-> "sweep", a |-> [mid |-> Mid]], <<>>)
    /\ pc' = "cb"
    /\ UNCHANGED <<nreq, tainted>>

(* strategy callback: at most one request per callback, each sent as its own package *)
Verdicts(q) ==
    LET ex == Expected(s, q) IN
    IF ex = "ANY" THEN {"ACCEPT", "REFUSE"}
    ELSE IF ex = "ERRORorREFUSE" THEN {"ERROR", "REFUSE"}
    ELSE {ex}

PlaceReq(o) ==
    [kind |-> "PLACE", o |-> o, t |-> TradeOf[o], force |-> FALSE, ctx |-> FALSE, mid |-> Mid,
     strat |-> "A", rck |-> Rck, sel |-> 1, side |-> "BACK", otype |-> "LIMIT", price |-> 200,
     size |-> Size, pers |-> "LAPSE", tif |-> "NONE", minfill |-> -1, multi |-> TRUE, reset |-> 0,
     placereset |-> 0, maxtrades |-> 10, maxlive |-> 10, pendorders |-> FALSE, r |-> "ACCEPT",
     selk |-> "1", client |-> Client, lad |-> "CLASSIC", tclient |-> ""]

Requests ==
    {PlaceReq(o) : o \in Orders}
    \cup {[kind |-> "CANCEL", o |-> o, red |-> rd, force |-> FALSE, mid |-> Mid, r |-> "ACCEPT", tclient |-> ""] :
             o \in DOMAIN s.ord, rd \in {0, 1}}
    \cup {[kind |-> "UPDATE", o |-> o, pers |-> "PERSIST", force |-> FALSE, mid |-> Mid, r |-> "ACCEPT", tclient |-> ""] :
             o \in DOMAIN s.ord}
    \cup (IF AllowReplace
          THEN {[kind |-> "REPLACE", o |-> o, price |-> 210, force |-> FALSE, mid |-> Mid, r |-> "ACCEPT", tclient |-> ""] :
                   o \in DOMAIN s.ord \cap Orders}
          ELSE {})

Cb ==
    /\ pc = "cb"
    /\ \/ /\ s' = s /\ UNCHANGED <<nreq, tainted>>
       \/ /\ nreq < MaxReqs
          /\ \E q0 \in Requests : \E v \in Verdicts(q0) :
               LET q == [q0 EXCEPT !.r = v]
                   pk == IF v = "ACCEPT"
                         THEN <<[kind |-> q.kind, orders |-> <<q.o>>, delay |-> Lat[q.kind],
                                 mid |-> Mid, mver |-> -1, client |-> Client]>>
                         ELSE <<>>
               IN /\ s' = Step(s, [ev |-> "cb", reqs |-> <<q>>, pkgs |-> pk], <<>>)
                  /\ tainted' = LET qq == NormReq(s, q) IN
                                IF q.kind = "PLACE" /\ v = "ACCEPT" /\ Has(s.trd, qq.t) /\ s.trd[qq.t].status = "COMPLETE"
                                THEN tainted \cup {qq.t} ELSE tainted
          /\ nreq' = nreq + 1
    /\ pc' = "idle"

Next == Upd \/ Exec \/ PendDone \/ Mw \/ Sweep \/ Cb

Spec == Init /\ [][Next]_vars

-----------------------------------------------------------------------------
(* properties *)
AtEndOfUpdate == pc = "idle"

Inv_C03_OneInFlight == OneInFlight(s)
Inv_C04_Conserved == \A o \in DOMAIN s.ord : Conserved(s.ord[o]) /\ NonNeg(s.ord[o])
Inv_C04_CompleteIff == pc \in {"cb", "idle"} => \A o \in DOMAIN s.ord : CompleteIffNothingRemains(s.ord[o])
Inv_C10_LiveTradesExact == AtEndOfUpdate => {x \in LiveTradesWrong(s) : x[2] \notin tainted} = {}
Inv_C10_TradeCompleteIff == AtEndOfUpdate => TradeStatusWrong(s) \ tainted = {}
Inv_C10_NoTradePending == TradePendingLeft(s) = {}
Inv_C10_RcClean == RcListsClean(s)
Inv_C15_LiveListComplete == AtEndOfUpdate => LiveListIncomplete(s) = {}
Inv_C15_LiveInBlotter == LiveNotInBlotter(s) = {}
Inv_C07_NoDueLeft == pc \in {"mw", "sweep", "cb", "idle"} => SurvivingDue(s, Mid) = {}

\* C09: whenever a strategy is called, every order that was on the runner when it was removed is
\* void and complete (an order placed afterwards is still awaiting its failing placement)
Inv_C09_RemovedComplete ==
    pc \in {"cb", "idle"} =>
      \A o \in DOMAIN s.ord :
         (s.ord[o].inbl /\ s.ord[o].selk \in SeqToSet(s.mkt[Mid].removed)
          /\ ~(s.ord[o].status = "PENDING" /\ s.ord[o].void = 0 /\ s.ord[o].m = 0)) =>
            (s.ord[o].cplt /\ s.ord[o].m = 0 /\ Rem(s.ord[o]) = 0)

\* status transitions are legal and completion is final (action properties)
StatusOf(st, o) == IF o \in DOMAIN st.ord THEN st.ord[o].status ELSE "NONE"
Prop_C03_Finality == [][FinalityBroken(s, s') = {}]_vars
Prop_C15_RemovedOnlyAfterComplete == [][LeftLiveWhileIncomplete(s, s') = {}]_vars
Prop_C04_MatchedMonotone ==
    [][\A o \in DOMAIN s.ord \cap DOMAIN s'.ord : MatchedMonotone(s.ord[o], s'.ord[o])]_vars

\* coverage witnesses (the invariants' antecedents are reachable): checked by the harness as
\* invariants that MUST be violated in a separate run
Reach_CompleteOrder == ~(\E o \in DOMAIN s.ord : s.ord[o].status = "COMPLETE" /\ s.ord[o].m = Size)
Reach_Replacement == ~(\E o \in DOMAIN s.ord : o \notin Orders /\ s.ord[o].status = "EXECUTABLE")
Reach_TradeComplete == ~(\E t \in DOMAIN s.trd : s.trd[t].status = "COMPLETE")
Reach_VoidedMatched == ~(\E o \in DOMAIN s.ord : s.ord[o].void = Size /\ s.ord[o].status = "COMPLETE" /\ s.ord[o].nlog >= 3)

TradeOfDef == ("o1" :> "t1") @@ ("o2" :> "t1")
TradeOfSep == ("o1" :> "t1") @@ ("o2" :> "t2")
StateConstraint == TRUE
=============================================================================
