----------------------------- MODULE MC_SimMatch -----------------------------
(***************************************************************************)
(* Exhaustive design check of the matching engine specification SimMatch:   *)
(*                                                                          *)
(*  Mode "place":  every book (<= 2 levels per side over Prices x Sizes,    *)
(*     gaps and empty sides included, never crossed) x every limit order    *)
(*     (side, price, size, fill-or-kill x min fill absent / below / equal / *)
(*     above the size, best price execution on / off, full-match off) is    *)
(*     placed; a resting order is then matched against every traded ladder  *)
(*     (two rounds).  Invariants: the C05 formulas and C06's lone-order     *)
(*     formula.                                                             *)
(*  Mode "group":  up to three resting orders of one strategy on one runner *)
(*     (any sides / prices / queue positions) are matched against every     *)
(*     traded ladder for two rounds.  Invariants: the C06 aggregate         *)
(*     formulas (no overfill, thresholds, better price first).              *)
(***************************************************************************)
EXTENDS SimMatch

CONSTANTS Mode, Prices, Sizes, Deltas, MaxOrders

VARIABLES phase, o0, cur, rb, env, hist

vars == <<phase, o0, cur, rb, env, hist>>

Mb == [status |-> "OPEN", version |-> 1, bsp |-> TRUE, bsprec |-> FALSE, inplay |-> FALSE, pt |-> 5]

Levels(ps) ==   \* sequences of <= 2 levels over the price set ps, in the order given by the caller
    {<<>>} \cup {<<<<p, z>>>> : p \in ps, z \in Sizes}
           \cup {<<<<p, z>>, <<q, y>>>> : p \in ps, q \in ps, z \in Sizes, y \in Sizes}

SortedDesc(l) == \A i \in 1..(Len(l) - 1) : l[i][1] > l[i + 1][1]
SortedAsc(l) == \A i \in 1..(Len(l) - 1) : l[i][1] < l[i + 1][1]

Books == {[status |-> "ACTIVE", atb |-> b, atl |-> a, sp |-> -1] :
             b \in {x \in Levels(Prices) : SortedDesc(x)},
             a \in {x \in Levels(Prices) : SortedAsc(x)}}
NotCrossed(b) == b.atb = <<>> \/ b.atl = <<>> \/ b.atb[1][1] < b.atl[1][1]

BaseOrder(side, price, size, tif, minfill) ==
    [status |-> "PENDING", cplt |-> FALSE, bet |-> FALSE, side |-> side, type |-> "LIMIT",
     price |-> price, size |-> size, pers |-> "LAPSE", tif |-> tif, minfill |-> minfill,
     m |-> 0, can |-> 0, lap |-> 0, void |-> 0, avg |-> 0, frags |-> <<>>, piq |-> 0,
     bspd |-> FALSE, mver |-> -1, selk |-> "1", client |-> "c1", bseq |-> 0, lad |-> "CLASSIC"]

OrderSpace ==
    {BaseOrder(sd, p, z, tf, mf) : sd \in {"BACK", "LAY"}, p \in Prices, z \in Sizes \ {0},
                                   tf \in {"NONE", "FOK"}, mf \in {-1, 100, 200, 400}}

Traded == [Prices -> Deltas]

-----------------------------------------------------------------------------
InitPlace ==
    /\ Mode = "place"
    /\ phase = "new"
    /\ o0 \in OrderSpace
    /\ (o0.tif = "NONE" => o0.minfill = -1)
    /\ cur = o0
    /\ rb \in {b \in Books : NotCrossed(b)}
    /\ env \in {[pkgmver |-> -1, bpe |-> b, fullmatch |-> FALSE, pt |-> 5, instr |-> TRUE] : b \in BOOLEAN}
    /\ hist = <<>>

DoPlace ==
    /\ phase = "new"
    /\ LET r == Place(o0, Mb, rb, env)
       IN cur' = [ApplyRes(o0, r) EXCEPT !.bet = r.ok, !.status = IF r.ok THEN "EXECUTABLE" ELSE "COMPLETE"]
    /\ phase' = "placed"
    /\ UNCHANGED <<o0, rb, env, hist>>

DoMatch ==
    /\ phase \in {"placed", "matched1"}
    /\ cur.status = "EXECUTABLE" /\ Rem(cur) > 0
    /\ \E d \in Traded :
         LET r == Passive(cur, Mb, rb, d, 7, 1000)
         IN /\ cur' = r[1]
            /\ hist' = Append(hist, [pre |-> cur, d |-> d, post |-> r[1]])
    /\ phase' = IF phase = "placed" THEN "matched1" ELSE "matched2"
    /\ UNCHANGED <<o0, rb, env>>

\* ---- group mode: cur is a function label -> order; hist the rounds
Labels == 1..MaxOrders
GroupOrder(i, sd, p, z, q) == [BaseOrder(sd, p, z, "NONE", -1) EXCEPT !.status = "EXECUTABLE", !.bet = TRUE,
                                                                 !.piq = q, !.mver = 1, !.bseq = i]
InitGroup ==
    /\ Mode = "group"
    /\ phase = "placed"
    /\ o0 = <<>>
    /\ \E n \in 1..MaxOrders :
         cur \in [1..n -> {GroupOrder(0, sd, p, z, q) : sd \in {"BACK", "LAY"}, p \in Prices, z \in {100, 300}, q \in {0, 100}}]
    /\ rb = [status |-> "ACTIVE", atb |-> <<>>, atl |-> <<>>, sp |-> -1]
    /\ env = <<>>
    /\ hist = <<>>

Normalised == [i \in DOMAIN cur |-> [cur[i] EXCEPT !.bseq = i]]

DoGroupMatch ==
    /\ Mode = "group" /\ phase \in {"placed", "matched1"}
    /\ \E d \in Traded :
         LET ord == Normalised
             live == {i \in DOMAIN ord : Rem(ord[i]) > 0}
             labs == SortOrders(ord, live)
             res == FoldPassive(ord, {}, labs, ("1" :> d), (Mb @@ [r |-> ("1" :> rb)]), 7, ("c1" :> 1000))
         IN /\ cur' = res[1]
            /\ hist' = Append(hist, [pre |-> ord, d |-> d, post |-> res[1], live |-> live])
    /\ phase' = IF phase = "placed" THEN "matched1" ELSE "matched2"
    /\ UNCHANGED <<o0, rb, env>>

\* ---- iso mode (C13): strategy A's orders alone versus together with strategy B's
IsoOrder(lab, sn, sd, p, z, q, i) ==
    [GroupOrder(i, sd, p, z, q) EXCEPT !.status = "EXECUTABLE"] @@ [strat |-> sn, mid |-> "M", inbl |-> TRUE, live |-> TRUE]
InitIso ==
    /\ Mode \in {"iso", "noiso"}
    /\ phase = "placed"
    /\ o0 = <<>>
    /\ \E na \in 1..MaxOrders : \E nb \in 1..MaxOrders :
         \E fa \in [1..na -> {<<sd, p, q>> : sd \in {"BACK", "LAY"}, p \in Prices, q \in {0, 100}}] :
         \E fb \in [1..nb -> {<<sd, p, q>> : sd \in {"BACK", "LAY"}, p \in Prices, q \in {0, 100}}] :
            cur = [k \in ({<<"A", i>> : i \in 1..na} \cup {<<"B", i>> : i \in 1..nb}) |->
                      IF k[1] = "A" THEN IsoOrder(k, "A", fa[k[2]][1], fa[k[2]][2], 200, fa[k[2]][3], 2 * k[2])
                      ELSE IsoOrder(k, "B", fb[k[2]][1], fb[k[2]][2], 200, fb[k[2]][3], 2 * k[2] + 1)]
    /\ rb = [status |-> "ACTIVE", atb |-> <<>>, atl |-> <<>>, sp |-> -1]
    /\ env = <<>>
    /\ hist = <<>>

DoIso ==
    /\ Mode \in {"iso", "noiso"} /\ phase = "placed"
    /\ \E d \in Traded :
         LET bk == Mb @@ [r |-> ("1" :> rb)]
             onlyA == [k \in {x \in DOMAIN cur : x[1] = "A"} |-> cur[k]]
             duo == MwAll(cur, "M", Mode = "iso", ("1" :> d), bk, 7, ("c1" :> 1000))
             solo == MwAll(onlyA, "M", Mode = "iso", ("1" :> d), bk, 7, ("c1" :> 1000))
         IN hist' = <<[duo |-> duo, solo |-> solo]>>
    /\ phase' = "matched1"
    /\ UNCHANGED <<o0, cur, rb, env>>

Init == InitPlace \/ InitGroup \/ InitIso
Next == (Mode = "place" /\ (DoPlace \/ DoMatch)) \/ DoGroupMatch \/ DoIso

\* C13: with isolation, A's fills do not depend on B's orders
Inv_C13_Isolation ==
    (Mode = "iso" /\ hist # <<>>) => \A k \in DOMAIN hist[1].solo : hist[1].duo[k] = hist[1].solo[k]
\* without isolation they do (witness that the check is not vacuous)
Reach_NoIsoDiffers == ~(Mode = "noiso" /\ hist # <<>> /\ \E k \in DOMAIN hist[1].solo : hist[1].duo[k] # hist[1].solo[k])
Spec == Init /\ [][Next]_vars

-----------------------------------------------------------------------------
(* C05 on the placement *)
Placed == Mode = "place" /\ phase = "placed"
Inv_C05_FillWithinLimit == Placed => FillWithinLimit(o0, cur.frags, o0.tif = "FOK")
Inv_C05_LevelNotOverdrawn == Placed => LevelNotOverdrawn(o0, cur.frags, rb)
Inv_C05_FokAllOrNothing == (Placed /\ o0.tif = "FOK") => FokAllOrNothing(o0, cur)
Inv_C05_BpeLapse == (Placed /\ ~env.bpe /\ ~(o0.tif = "FOK" /\ o0.minfill > o0.size)) => BpeLapses(o0, rb, cur)
Inv_C04_Place == Placed => (cur.m >= 0 /\ Rem(cur) >= 0 /\ cur.can >= 0 /\ cur.lap >= 0 /\ cur.void >= 0
                            /\ cur.m + Rem(cur) + cur.can + cur.lap + cur.void = cur.size)
\* an unfilled, unkilled order rests with the queue it found at its price
Inv_C06_QueueCaptured ==
    (Placed /\ cur.status = "EXECUTABLE" /\ cur.m = 0 /\ Rem(cur) > 0) =>
        cur.piq = SizeAt(IF o0.side = "BACK" THEN rb.atl ELSE rb.atb, o0.price)

(* C06 on the passive rounds *)
Elig2(o, d) == LET ps == {p \in DOMAIN d : Eligible(o, p)}
                   RECURSIVE sum(_)
                   sum(T) == IF T = {} THEN 0 ELSE LET x == CHOOSE y \in T : TRUE IN d[x] + sum(T \ {x})
               IN sum(ps)

Inv_C06_LoneExact ==
    Mode = "place" => \A i \in DOMAIN hist :
        LET h == hist[i]
            want2 == Elig2(h.pre, h.d) - 2 * h.pre.piq
        IN /\ h.post.m - h.pre.m = Min(Rem(h.pre), IF want2 > 0 THEN RoundDiv(want2, 2) ELSE 0)
           /\ h.post.piq = Max(0, h.pre.piq - RoundDiv(Elig2(h.pre, h.d), 2))
           /\ \A j \in DOMAIN h.post.frags : j > Len(h.pre.frags) => h.post.frags[j][2] = h.pre.price

SumF(T, f) == LET RECURSIVE sum(_)
                  sum(U) == IF U = {} THEN 0 ELSE LET x == CHOOSE y \in U : TRUE IN f[x] + sum(U \ {x})
              IN sum(T)

Inv_C06_Group ==
    Mode = "group" => \A i \in DOMAIN hist :
        LET h == hist[i]
            fill == [k \in DOMAIN h.pre |-> h.post[k].m - h.pre[k].m]
            filled == {k \in h.live : fill[k] > 0}
            usable == {p \in DOMAIN h.d : \E k \in filled : Eligible(h.pre[k], p)}
        IN /\ \A k \in DOMAIN h.pre : fill[k] >= 0 /\ (k \notin h.live => fill[k] = 0)
           /\ 2 * SumF(DOMAIN h.pre, fill) <= SumF(usable, h.d)                        \* NoOverfill
           /\ \A k0 \in filled :                                                        \* thresholds per side
                 2 * SumF({k \in h.live : h.pre[k].side = h.pre[k0].side /\ Eligible(h.pre[k0], h.pre[k].price)}, fill)
                     <= Elig2(h.pre[k0], h.d)
           /\ \A k1 \in filled : \A k2 \in h.live :                                     \* BetterPriceFirst
                 (h.pre[k2].side = h.pre[k1].side /\ k2 # k1 /\
                  (IF h.pre[k1].side = "LAY" THEN h.pre[k2].price > h.pre[k1].price
                   ELSE h.pre[k2].price < h.pre[k1].price)) => Rem(h.post[k2]) = 0
           /\ \A k \in DOMAIN h.pre : Rem(h.post[k]) >= 0                                \* C04

\* witnesses
Reach_FokFilled == ~(Placed /\ o0.tif = "FOK" /\ cur.m > 0 /\ Len(cur.frags) = 2)
Reach_Resting == ~(Placed /\ cur.status = "EXECUTABLE" /\ cur.piq > 0)
Reach_GroupTwoFilled == ~(Mode = "group" /\ \E i \in DOMAIN hist :
                            Cardinality({k \in DOMAIN hist[i].pre : hist[i].post[k].m > hist[i].pre[k].m}) >= 2)
=============================================================================
