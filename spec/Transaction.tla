------------------------------ MODULE Transaction ------------------------------
(***************************************************************************)
(* The request path flumine/execution/transaction.py: accepted requests are *)
(* queued per kind, packaged on execute() / at the end of the transaction:  *)
(* kinds in the order PLACE, CANCEL, UPDATE, REPLACE; within a kind grouped *)
(* by market version (groups in order of first appearance, request order    *)
(* kept inside a group) and chunked by the exchange's per-call limit.       *)
(*   events: sequence of <<"req", kind, order, version, verdict>>,           *)
(*           <<"execute">> and <<"exit">>                                    *)
(*   Expected(events, limit) = the sequence of packages <<kind, orders, ver>>*)
(***************************************************************************)
EXTENDS Integers, Sequences, FiniteSets, TLC

Kinds == <<"PLACE", "CANCEL", "UPDATE", "REPLACE">>

RECURSIVE Versions(_, _)      \* distinct versions of a pending list in order of first appearance
Versions(pend, seen) ==
    IF pend = <<>> THEN <<>>
    ELSE IF \E i \in DOMAIN seen : seen[i] = pend[1][2] THEN Versions(Tail(pend), seen)
    ELSE <<pend[1][2]>> \o Versions(Tail(pend), Append(seen, pend[1][2]))

RECURSIVE Chunks(_, _)
Chunks(q, n) == IF q = <<>> THEN <<>>
                ELSE IF Len(q) <= n THEN <<q>>
                ELSE <<SubSeq(q, 1, n)>> \o Chunks(SubSeq(q, n + 1, Len(q)), n)

\* packages of one kind from its pending list of <<order, version>>
KindPackages(kind, pend, limit) ==
    LET vs == Versions(pend, <<>>)
        RECURSIVE go(_)
        go(i) == IF i > Len(vs) THEN <<>>
                 ELSE LET ords == SelectSeq(pend, LAMBDA x : x[2] = vs[i])
                          labs == [k \in DOMAIN ords |-> ords[k][1]]
                          ch == Chunks(labs, limit)
                      IN [k \in DOMAIN ch |-> <<kind, ch[k], vs[i]>>] \o go(i + 1)
    IN go(1)

Flush(pend, limits) ==
    KindPackages("PLACE", pend.PLACE, limits.PLACE) \o KindPackages("CANCEL", pend.CANCEL, limits.CANCEL)
    \o KindPackages("UPDATE", pend.UPDATE, limits.UPDATE) \o KindPackages("REPLACE", pend.REPLACE, limits.REPLACE)

EmptyPend == [PLACE |-> <<>>, CANCEL |-> <<>>, UPDATE |-> <<>>, REPLACE |-> <<>>]
AnyPending(p) == p.PLACE # <<>> \/ p.CANCEL # <<>> \/ p.UPDATE # <<>> \/ p.REPLACE # <<>>

RECURSIVE Run(_, _, _, _)
Run(events, pend, limits, out) ==
    IF events = <<>> THEN <<out, pend>>
    ELSE LET ev == Head(events) IN
         IF ev[1] = "req"
         THEN Run(Tail(events),
                  IF ev[5] = "ACCEPT" THEN [pend EXCEPT ![ev[2]] = Append(@, <<ev[3], ev[4]>>)] ELSE pend,
                  limits, out)
         ELSE \* execute / exit: everything pending is packaged
              Run(Tail(events), EmptyPend, limits, out \o Flush(pend, limits))

Expected(events, limits) == Run(events, EmptyPend, limits, <<>>)[1]
LeftPending(events, limits) == Run(events, EmptyPend, limits, <<>>)[2]

\* ---- properties of a package sequence pk against the accepted requests
Accepted(events) == SelectSeq(events, LAMBDA e : e[1] = "req" /\ e[5] = "ACCEPT")
Occurrences(pk, kind, o) ==
    Cardinality({<<i, j>> \in (DOMAIN pk) \X (1..1000) : j \in DOMAIN pk[i][2] /\ pk[i][1] = kind /\ pk[i][2][j] = o})
ExactlyOnce(events, pk) ==
    /\ \A i \in DOMAIN pk : \A j \in DOMAIN pk[i][2] :
          Cardinality({k \in DOMAIN events : events[k][1] = "req" /\ events[k][5] = "ACCEPT"
                                              /\ events[k][2] = pk[i][1] /\ events[k][3] = pk[i][2][j]})
            = Cardinality({<<a, b>> \in (DOMAIN pk) \X DOMAIN pk[i][2] : b \in DOMAIN pk[a][2] /\ pk[a][1] = pk[i][1] /\ pk[a][2][b] = pk[i][2][j]})
WithinLimit(pk, limits) == \A i \in DOMAIN pk : Len(pk[i][2]) >= 1 /\ Len(pk[i][2]) <= limits[pk[i][1]]
=============================================================================
