------------------------------ MODULE MC_Ladder ------------------------------
(* cursor machine over the ladder: Move(n) and Round(x); checks the ladder laws exhaustively *)
EXTENDS Ladder
CONSTANTS Tab, Moves, Probes
VARIABLES cur, step
vars == <<cur, step>>
T == IF Tab = "CLASSIC" THEN Classic ELSE IF Tab = "FINEST" THEN Finest ELSE Betdaq
Init == cur \in {TickAt(T, i) : i \in 0..(TickCount(T) - 1)} /\ step = 0
Next == /\ step < 2
        /\ \E n \in Moves : cur' = TicksAway(T, cur, n)
        /\ step' = step + 1
Spec == Init /\ [][Next]_vars
Inv_Count == TickCount(T) = (IF Tab = "CLASSIC" THEN 350 ELSE IF Tab = "FINEST" THEN 99900 ELSE 565)
Inv_OnLadder == OnLadder(T, cur) /\ TickAt(T, IndexOf(T, cur)) = cur
Inv_MoveInverse ==
    \A n \in Moves : LET i == IndexOf(T, cur) IN
        (i + n >= 0 /\ i + n < TickCount(T)) => TicksAway(T, TicksAway(T, cur, n), -n) = cur
Inv_Clamped == TicksAway(T, cur, -1000) = MinP /\ TicksAway(T, cur, 1000) = MaxP
Inv_NearestIdempotent == IsNearest(T, cur, cur) /\ \A r \in {Below(T, cur), Above(T, cur)} : r = cur
Inv_NearestOfProbes ==
    \A d \in Probes : LET x == cur + d IN
        (x > MinP /\ x < MaxP) => (OnLadder(T, Below(T, x)) /\ OnLadder(T, Above(T, x)) /\ Below(T, x) <= x /\ x <= Above(T, x))
MovesDef == {-400, -7, -1, 1, 2, 50, 400}
ProbesDef == {-6, -5, -1, 1, 4, 5, 9, 10, 11, 499, 5000}
=============================================================================
