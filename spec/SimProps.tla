------------------------------ MODULE SimProps ------------------------------
(***************************************************************************)
(* The listed properties that concern simulation mode, as TLA+ formulas     *)
(* over the state records of SimCore.  Each formula comes in the form       *)
(*     F(pre, e)  where  pre = state before the step, e = the step record    *)
(*     (e.st = state after it, e.trans / e.reqs / e.pkgs / e.a = what        *)
(*     happened inside it)                                                   *)
(* so that the very same operator is an invariant / action property of the  *)
(* design model (MC_SimCore) and the verdict on a step recorded from the    *)
(* implementation (SimTrace).                                               *)
(***************************************************************************)
EXTENDS SimCore

-----------------------------------------------------------------------------
(* C03  order lifecycle *)
LegalPairs ==
    {<<"NONE", "PENDING">>, <<"NONE", "VIOLATION">>,
     <<"VIOLATION", "PENDING">>, <<"VIOLATION", "VIOLATION">>,
     <<"PENDING", "EXECUTABLE">>, <<"PENDING", "COMPLETE">>,
     <<"EXECUTABLE", "CANCELLING">>, <<"EXECUTABLE", "UPDATING">>,
     <<"EXECUTABLE", "REPLACING">>, <<"EXECUTABLE", "COMPLETE">>,
     <<"EXECUTABLE", "EXECUTABLE">>,
     <<"CANCELLING", "EXECUTABLE">>, <<"CANCELLING", "COMPLETE">>,
     <<"UPDATING", "EXECUTABLE">>, <<"UPDATING", "COMPLETE">>,
     <<"REPLACING", "EXECUTABLE">>, <<"REPLACING", "COMPLETE">>,
     <<"COMPLETE", "COMPLETE">>}

Legal(prev, new) == <<prev, new>> \in LegalPairs

\* every status transition performed inside the step (e.trans[i] = <<order, prev, new, caller, time>>)
IllegalTransitions(e) == {i \in DOMAIN e.trans : ~Legal(e.trans[i][2], e.trans[i][3])}

\* an order that was sent and reported complete stays complete; its matched size is frozen
\* unless it is voided by a runner removal (matched drops to 0, voided grows)
Sent(o) == o.inbl
FinalityBroken(pre, post) ==
    {o \in DOMAIN pre.ord \cap DOMAIN post.ord :
        /\ Sent(pre.ord[o]) /\ pre.ord[o].status = "COMPLETE"
        /\ ~( /\ post.ord[o].status = "COMPLETE"
              /\ \/ post.ord[o].m = pre.ord[o].m
                 \/ (post.ord[o].m = 0 /\ post.ord[o].void > pre.ord[o].void)
                 \* a market-on-close lay is re-sized when a non-runner is declared after the SP (C09)
                 \/ (post.ord[o].type = "MARKET_ON_CLOSE" /\ post.ord[o].side = "LAY"
                     /\ post.ord[o].size < pre.ord[o].size /\ post.ord[o].m < pre.ord[o].m) )}

\* at most one package in flight per order
InFlightCount(s, o) ==
    Cardinality({i \in DOMAIN s.hq : ~s.hq[i].done /\ o \in SeqToSet(s.hq[i].orders)
                                      /\ s.ord[o].status # "VIOLATION"})
OneInFlight(s) == \A o \in DOMAIN s.ord : InFlightCount(s, o) <= 1

\* a cancel / update / replace is accepted only for an executable order with a bet id and a
\* compatible type; anything else is rejected without side effects
ReqBefore(q) == q.before
ReqAfter(q) == q.after
BadAccept(pre, q) ==
    /\ q.r = "ACCEPT" /\ q.kind \in {"CANCEL", "UPDATE", "REPLACE"}
    /\ ~( /\ q.before.status = "EXECUTABLE"
          /\ q.o \in DOMAIN pre.ord => pre.ord[q.o].bet
          /\ q.o \in DOMAIN pre.ord =>
                (IF q.kind = "REPLACE" THEN pre.ord[q.o].type \in {"LIMIT", "LIMIT_ON_CLOSE"}
                 ELSE pre.ord[q.o].type = "LIMIT") )
RejectedWithEffect(q) ==
    /\ q.r \in {"ERROR", "REFUSE"} /\ q.kind \in {"CANCEL", "UPDATE", "REPLACE"}
    /\ q.before # q.after

-----------------------------------------------------------------------------
(* C04  size conservation (evaluated whenever a strategy is called: cb steps) *)
SpLayLimit(o) == o.type = "LIMIT" /\ o.side = "LAY" /\ o.pers = "MARKET_ON_CLOSE" /\ o.bspd

Conserved(o) == o.type = "LIMIT" => o.m + Rem(o) + o.can + o.lap + o.void = o.size
NonNeg(o) ==
    o.type = "LIMIT" =>
        /\ o.m >= 0 /\ Rem(o) >= 0 /\ o.lap >= 0 /\ o.void >= 0
        /\ (o.can >= 0 \/ SpLayLimit(o))
CompleteIffNothingRemains(o) ==
    (o.type = "LIMIT" /\ o.inbl /\ ~(o.pers = "MARKET_ON_CLOSE" /\ ~o.bspd /\ FALSE)) =>
        (o.cplt <=> Rem(o) = 0)
\* matched never decreases except by a void
MatchedMonotone(a, b) == a.type # "LIMIT" \/ b.m >= a.m \/ (b.m = 0 /\ b.void > a.void)

-----------------------------------------------------------------------------
(* C10  trade / runner accounting (evaluated at the end of every update)     *)
PlacedOrdersOf(s, t) == {o \in SeqToSet(s.trd[t].orders) : s.ord[o].inbl}
TradePlaced(s, t) == PlacedOrdersOf(s, t) # {}
TradeLiveByOrders(s, t) == \E o \in PlacedOrdersOf(s, t) : ~s.ord[o].cplt
TradesOfKey(s, k) == {t \in DOMAIN s.trd : s.trd[t].rck = k /\ ~s.trd[t].pend}

\* live trades charged = placed trades that still have an incomplete order
LiveTradesWrong(s) ==     \* set of <<runner-context key, trade, direction>> charged wrongly
    UNION {LET charged == {t \in SeqToSet(s.rc[k].live) : ~s.trd[t].pend}
               actual == {t \in TradesOfKey(s, k) : t \in SeqToSet(s.rc[k].trades) /\ TradeLiveByOrders(s, t)}
           IN {<<k, t, "stale">> : t \in charged \ actual}          \* charged although nothing of it is live
              \cup {<<k, t, "missing">> : t \in actual \ charged} : k \in DOMAIN s.rc}
\* no duplicates in the accounting lists
NoDupSeq(q) == Cardinality(SeqToSet(q)) = Len(q)
RcListsClean(s) == \A k \in DOMAIN s.rc : NoDupSeq(s.rc[k].trades) /\ NoDupSeq(s.rc[k].live)
\* a placed trade is COMPLETE exactly when all its placed orders are complete
TradeStatusWrong(s) ==
    {t \in DOMAIN s.trd :
        /\ ~s.trd[t].pend /\ TradePlaced(s, t)
        /\ ~((s.trd[t].status = "COMPLETE") <=> ~TradeLiveByOrders(s, t))}
\* no trade left in its transient state between handler steps
TradePendingLeft(s) == {t \in DOMAIN s.trd : s.trd[t].status = "PENDING"}

\* limits honoured by every accepted, non-forced placement (q = request, s = state before it,
\* s2 = state after it)
AcceptViolatesLimits(s, q, s2) ==
    LET k == q.rck
        rc0 == IF Has(s.rc, k) THEN s.rc[k] ELSE EmptyRc
        rc2 == IF Has(s2.rc, k) THEN s2.rc[k] ELSE EmptyRc
        shortcut == q.multi /\ q.t \in SeqToSet(rc0.live)
    IN /\ q.kind = "PLACE" /\ q.r = "ACCEPT" /\ ~q.force
       \* (a count already above the limit - a forced placement went before - is not this request's doing)
       /\ \/ (Len(rc2.trades) > q.maxtrades /\ Len(rc2.trades) > Len(rc0.trades))
          \/ (Len(rc2.live) > q.maxlive /\ Len(rc2.live) > Len(rc0.live))
          \/ (~shortcut /\ rc0.lastr >= 0 /\ s.clock - rc0.lastr < q.reset)
          \/ (~shortcut /\ rc0.lastp >= 0 /\ s.clock - rc0.lastp < q.placereset)

-----------------------------------------------------------------------------
(* C15  blotter coherence (the parts visible in the modelled state)          *)
LiveListIncomplete(s) == {o \in DOMAIN s.ord : s.ord[o].inbl /\ ~s.ord[o].cplt /\ ~s.ord[o].live}
LeftLiveWhileIncomplete(pre, post) ==
    {o \in DOMAIN pre.ord \cap DOMAIN post.ord :
        pre.ord[o].live /\ ~post.ord[o].live /\ ~post.ord[o].cplt}
LiveNotInBlotter(s) == {o \in DOMAIN s.ord : s.ord[o].live /\ ~s.ord[o].inbl}

-----------------------------------------------------------------------------
(* C07  latency / bet delay                                                  *)
\* a package is executed exactly at the first update of its market for which Due holds:
\*   (a) when it executes it is due;  (b) no due package of the market survives the pend step
ExecNotDue(pre, e) == e.ev = "exec" /\ ~(pre.clock - e.a.created > e.a.delay)
SurvivingDue(post, mid) ==
    {i \in DOMAIN post.hq : post.hq[i].mid = mid /\ post.clock - post.hq[i].created > post.hq[i].delay}
\* the delay charged is latency(kind) + the bet delay in force when the request was made
ExpectedDelay(kind, betdelay, lat) ==
    IF kind = "PLACE" THEN lat.place + 1000 * betdelay
    ELSE IF kind = "CANCEL" THEN lat.cancel
    ELSE IF kind = "UPDATE" THEN lat.update
    ELSE lat.replace + 1000 * betdelay

=============================================================================
