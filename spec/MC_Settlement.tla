---------------------------- MODULE MC_Settlement ----------------------------
(* Exhaustive check of the settlement rules' own laws over a bounded space of fills and results:
   side symmetry, zero for unmatched / removed, a winner never loses more than a loser,
   dead-heat and each-way monotonicity, commission only on a net win. *)
EXTENDS Settlement, TLC

CONSTANTS Prices, Stakes
VARIABLES f, mtype, result, ndh, ewd, lineorder, line, lineresult, step
vars == <<f, mtype, result, ndh, ewd, lineorder, line, lineresult, step>>

Frags == {<<>>} \cup {<<<<1, p, z>>>> : p \in Prices, z \in Stakes}
               \cup {<<<<1, p, z>>, <<2, q, y>>>> : p \in Prices, q \in Prices, z \in Stakes, y \in Stakes}

Init ==
    /\ f \in Frags
    /\ mtype \in {"WIN", "PLACE", "EACH_WAY"}
    /\ result \in {"WINNER", "LOSER", "PLACED", "REMOVED"}
    /\ ndh \in 1..3
    /\ ewd \in {1, 4, 5}
    /\ lineorder \in BOOLEAN
    /\ line \in {150, 200}
    /\ lineresult \in {-1, 100, 200, 300}
    /\ step = 0
Next == step = 0 /\ step' = 1 /\ UNCHANGED <<f, mtype, result, ndh, ewd, lineorder, line, lineresult>>
Spec == Init /\ [][Next]_vars

B == Profit("BACK", f, mtype, result, ndh, ewd, lineorder, line, lineresult)
L == Profit("LAY", f, mtype, result, ndh, ewd, lineorder, line, lineresult)

Inv_SideSymmetry == B[1] = -L[1] /\ B[2] = L[2]
Inv_ZeroIfUnmatchedOrRemoved == (f = <<>> \/ (result = "REMOVED" /\ ~lineorder)) => B[1] = 0
Inv_LoserLosesStake == (~lineorder /\ mtype # "EACH_WAY" /\ result = "LOSER" /\ f # <<>>) => B[1] = -(SumStake(f) * 100) /\ B[2] = 1
Inv_WinnerAtLeastLoser ==
    (~lineorder /\ f # <<>> /\ B[2] > 0) =>
        LET w == Profit("BACK", f, mtype, "WINNER", ndh, ewd, FALSE, line, lineresult)
            l == Profit("BACK", f, mtype, "LOSER", ndh, ewd, FALSE, line, lineresult)
        IN w[1] * l[2] >= l[1] * w[2]
Inv_DeadHeatReduces ==
    (~lineorder /\ mtype # "EACH_WAY" /\ result = "WINNER" /\ f # <<>> /\ ndh > 1) =>
        LET full == Profit("BACK", f, mtype, "WINNER", 1, ewd, FALSE, line, lineresult)
        IN B[1] * full[2] <= full[1] * B[2]
Inv_LineEvenMoney ==
    (lineorder /\ f # <<>> /\ lineresult >= 0 /\ line # lineresult) => (B[2] = 1 /\ Abs(B[1]) = SumStake(f) * 100)
=============================================================================
