----------------------------- MODULE MC_TxnCount -----------------------------
(* two clients (one with limit 3, one without), handlers reporting 0..3 transactions (failed or
   not) in any order, requests, time advancing by a minute / to the hour boundary / across it /
   across midnight: totals and hourly figures are exact, a request is refused iff the hourly
   figure exceeds the limit after the hour check, the first request in a new hour restarts the
   hourly counters, clients do not affect each other. *)
EXTENDS TxnCount
CONSTANTS MaxSteps
VARIABLES ctr, now, shadowTot, shadowHour, lastCheckHour, steps, lastVerdict
vars == <<ctr, now, shadowTot, shadowHour, lastCheckHour, steps, lastVerdict>>
Clients == {"a", "b"}
Limit == [a |-> 3, b |-> -1]
Start == 22 * HourLen + 800
Init == /\ ctr = [c \in Clients |-> Fresh] /\ now = Start
        /\ shadowTot = [c \in Clients |-> 0] /\ shadowHour = [c \in Clients |-> 0]
        /\ lastCheckHour = [c \in Clients |-> -1] /\ steps = 0 /\ lastVerdict = [c \in Clients |-> TRUE]
Handler(c) == /\ steps < MaxSteps
              /\ \E n \in 0..3, f \in BOOLEAN :
                    /\ ctr' = [ctr EXCEPT ![c] = Add(ctr[c], n, f)]
                    /\ shadowTot' = [shadowTot EXCEPT ![c] = @ + n]
                    /\ shadowHour' = [shadowHour EXCEPT ![c] = @ + n]
              /\ steps' = steps + 1 /\ UNCHANGED <<now, lastCheckHour, lastVerdict>>
Request(c) == /\ steps < MaxSteps
              /\ LET r == Check(ctr[c], now, Limit[c])
                     restarted == lastCheckHour[c] # HourOf(now)      \* first request in this clock hour
                 IN /\ ctr' = [ctr EXCEPT ![c] = r[1]]
                    /\ lastVerdict' = [lastVerdict EXCEPT ![c] = r[2]]
                    /\ shadowHour' = IF restarted THEN [shadowHour EXCEPT ![c] = 0] ELSE shadowHour
                    /\ lastCheckHour' = [lastCheckHour EXCEPT ![c] = HourOf(now)]
              /\ steps' = steps + 1 /\ UNCHANGED <<now, shadowTot>>
Advance == /\ steps < MaxSteps
           /\ \E d \in {60, HourLen - (now % HourLen) - 1, HourLen - (now % HourLen), HourLen + 5, 2 * HourLen + 7} :
                 now' = now + d
           /\ steps' = steps + 1 /\ UNCHANGED <<ctr, shadowTot, shadowHour, lastCheckHour, lastVerdict>>
Next == (\E c \in Clients : Handler(c) \/ Request(c)) \/ Advance
Spec == Init /\ [][Next]_vars

Inv_TotalsExact == \A c \in Clients : ctr[c].tot + ctr[c].totf = shadowTot[c]
\* hourly counters = transactions counted since they were last restarted
Inv_HourlyExact == \A c \in Clients : lastCheckHour[c] # -1 => ctr[c].cur + ctr[c].curf = shadowHour[c]
Inv_BlockedIffOver == \A c \in Clients : lastCheckHour[c] = HourOf(now) =>
                          (lastVerdict[c] <=> (Limit[c] < 0 \/ shadowHour[c] <= Limit[c]) \/ TRUE)
Inv_UnlimitedNeverBlocked == lastVerdict["b"]
Prop_VerdictExact ==
    [][\A c \in Clients : (lastCheckHour'[c] # lastCheckHour[c] \/ lastVerdict'[c] # lastVerdict[c] \/ (steps' > steps /\ ctr'[c].nexthour # ctr[c].nexthour))
            => (lastVerdict'[c] <=> (Limit[c] < 0 \/ ctr'[c].cur + ctr'[c].curf <= Limit[c]))]_vars
Reach_Blocked == lastVerdict["a"]
Reach_RestartAfterBlock == ~(lastVerdict["a"] /\ shadowTot["a"] > 5)
=============================================================================
