------------------------------ MODULE EventMerge ------------------------------
(***************************************************************************)
(* Delivery of recorded market data in simulation:                          *)
(*   Filter     FlumineMarketStream._process (listener filters inplay /     *)
(*              seconds_to_start / max_inplay_seconds)                      *)
(*   Merge      the event-group loop of FlumineSimulation.run: sort the     *)
(*              front of every stream by publish time (stable), pop the     *)
(*              first, process it, re-append the stream's next update       *)
(*   Delivery   grouping of streams by event group, sequential otherwise    *)
(* Streams are sequences of update records [pt, status, inplay, mtime].     *)
(***************************************************************************)
EXTENDS Integers, Sequences, FiniteSets, TLC

\* listener = [inplay |-> "NONE"|"TRUE"|"FALSE", sts |-> ms or -1, maxinplay |-> ms or -1]
\* walk a stream keeping the time the market turned in-play (only tracked when maxinplay is set)
RECURSIVE FilterFrom(_, _, _, _, _)
FilterFrom(lines, i, L, prevInplay, inplayAt) ==
    IF i > Len(lines) THEN <<>>
    ELSE LET u == lines[i]
             at == IF L.maxinplay >= 0 /\ u.inplay /\ ~prevInplay THEN u.pt ELSE inplayAt
             open == u.status = "OPEN"
             a1 == IF open /\ L.inplay = "TRUE" THEN u.inplay
                   ELSE IF open /\ L.inplay # "TRUE" /\ L.sts > 0 THEN ~(u.mtime - u.pt > L.sts)
                   ELSE TRUE
             a2 == IF open /\ L.inplay = "FALSE" /\ u.inplay THEN FALSE ELSE a1
             a3 == IF open /\ L.maxinplay >= 0 /\ at >= 0 /\ (u.pt - at) > L.maxinplay THEN FALSE ELSE a2
         IN (IF a3 THEN <<u.pt>> ELSE <<>>) \o FilterFrom(lines, i + 1, L, u.inplay, at)

Filter(lines, L) == FilterFrom(lines, 1, L, FALSE, -1)

\* ---- the merge loop.  cycles: sequence of [pt, s, i] (front element of stream s at index i)
RECURSIVE InsertSorted(_, _)
InsertSorted(q, c) ==     \* stable: after every element with pt <= c.pt
    IF q = <<>> THEN <<c>>
    ELSE IF Head(q).pt <= c.pt THEN <<Head(q)>> \o InsertSorted(Tail(q), c)
    ELSE <<c>> \o q
RECURSIVE StableSort(_)
StableSort(q) == IF q = <<>> THEN <<>> ELSE InsertSorted(StableSort(SubSeq(q, 1, Len(q) - 1)), q[Len(q)])

RECURSIVE MergeLoop(_, _, _)
MergeLoop(cycles, pts, out) ==      \* pts: function stream -> sequence of publish times
    IF cycles = <<>> THEN out
    ELSE LET sorted == StableSort(cycles)
             cur == Head(sorted)
             rest == Tail(sorted)
             nxt == IF cur.i < Len(pts[cur.s])
                    THEN Append(rest, [pt |-> pts[cur.s][cur.i + 1], s |-> cur.s, i |-> cur.i + 1])
                    ELSE rest
         IN MergeLoop(nxt, pts, Append(out, <<cur.s, cur.pt>>))

\* streams of one event group, in framework order (order: sequence of stream names)
Merge(order, pts) ==
    LET nonempty == SelectSeq(order, LAMBDA s : pts[s] # <<>>)
    IN MergeLoop([k \in DOMAIN nonempty |-> [pt |-> pts[nonempty[k]][1], s |-> nonempty[k], i |-> 1]], pts, <<>>)

Sequential(order, pts) ==
    LET RECURSIVE go(_)
        go(k) == IF k > Len(order) THEN <<>>
                 ELSE [j \in DOMAIN pts[order[k]] |-> <<order[k], pts[order[k]][j]>>] \o go(k + 1)
    IN go(1)

\* groups: sequence of [group |-> name or "", streams |-> sequence of stream names] in the order
\* FlumineSimulation.run visits them
RECURSIVE Delivery(_, _)
Delivery(groups, pts) ==
    IF groups = <<>> THEN <<>>
    ELSE LET g == Head(groups)
         IN (IF g.group # "" /\ Len(g.streams) > 1 THEN Merge(g.streams, pts) ELSE Sequential(g.streams, pts))
            \o Delivery(Tail(groups), pts)

\* ---- properties of a delivery sequence d (sequence of <<stream, pt>>)
Sorted(d) == \A i \in 1..(Len(d) - 1) : d[i][2] <= d[i + 1][2]
PerStream(d, s) == LET sel == SelectSeq(d, LAMBDA x : x[1] = s) IN [k \in DOMAIN sel |-> sel[k][2]]
PerStreamOrderKept(d, pts) == \A s \in DOMAIN pts : PerStream(d, s) = pts[s]      \* also exactly once
=============================================================================
