------------------------------- MODULE Closure -------------------------------
(***************************************************************************)
(* Market closure / re-open / removal bookkeeping:                          *)
(*   BaseFlumine._process_market_books / _process_close_market,             *)
(*   FlumineSimulation._process_market_books, Markets.add_market (re-open), *)
(*   Market.open_market / close_market, BaseFlumine._remove_market,         *)
(*   the live rule "remove markets closed for more than an hour".           *)
(* Streams repeat CLOSED books, data can arrive again after a close, a      *)
(* market can be first seen CLOSED.                                         *)
(***************************************************************************)
EXTENDS Integers, Sequences, FiniteSets, TLC

CONSTANTS Markets,        \* market ids
          Strategies,     \* strategy names
          Subscribed,     \* function Strategies -> SUBSET Markets (empty filter = all markets)
          Clients,
          Live,           \* BOOLEAN: live framework (closure via the handler queue, removal after an hour)
          MaxSteps

VARIABLES known,      \* markets present in framework.markets
          closed,     \* Market.closed
          flags,      \* per market: number of entries in orders_cleared + market_cleared (live worker)
          invested,   \* markets for which strategies hold runner contexts
          mwstate,    \* markets for which the middleware holds state
          calls,      \* [Strategies -> [Markets -> Nat]] process_closed_market invocations
          closings,   \* [Markets -> Nat] CLOSED books received
          summaries,  \* [Markets -> Nat] cleared-market summaries emitted (simulation)
          closedAt,   \* [Markets -> Int] time of closure (-1 = never)
          queue,      \* live: CloseMarketEvents not yet handled
          now, steps

vars == <<known, closed, flags, invested, mwstate, calls, closings, summaries, closedAt, queue, now, steps>>

Receives(s, m) == m \in Subscribed[s]     \* the empty market filter = all markets

Init ==
    /\ known = {} /\ closed = {} /\ flags = [m \in Markets |-> 0]
    /\ invested = {} /\ mwstate = {}
    /\ calls = [s \in Strategies |-> [m \in Markets |-> 0]]
    /\ closings = [m \in Markets |-> 0] /\ summaries = [m \in Markets |-> 0]
    /\ closedAt = [m \in Markets |-> -1]
    /\ queue = <<>> /\ now = 0 /\ steps = 0

\* add a market or re-open it (Markets.add_market -> Market.open_market)
AddOrReopen(m) ==
    /\ known' = known \cup {m}
    /\ closed' = closed \ {m}
    /\ flags' = IF m \in closed THEN [flags EXCEPT ![m] = 0] ELSE flags

\* an OPEN / SUSPENDED book
Update(m) ==
    /\ steps < MaxSteps
    /\ AddOrReopen(m)
    /\ mwstate' = mwstate \cup {m}
    /\ invested' = invested \cup {m}       \* strategies may trade
    /\ UNCHANGED <<calls, closings, summaries, closedAt, queue, now>>
    /\ steps' = steps + 1

\* _process_close_market
CloseEffects(m, kn, cl) ==
    /\ calls' = [s \in Strategies |-> IF Receives(s, m) THEN [calls[s] EXCEPT ![m] = @ + 1] ELSE calls[s]]
    /\ summaries' = IF Live THEN summaries ELSE [summaries EXCEPT ![m] = @ + Cardinality(Clients)]
    /\ closedAt' = IF m \in cl THEN closedAt ELSE [closedAt EXCEPT ![m] = now]

\* a CLOSED book in simulation: handled at once
ClosedSim(m) ==
    /\ ~Live /\ steps < MaxSteps
    /\ closings' = [closings EXCEPT ![m] = @ + 1]
    /\ known' = known \cup {m}
    /\ closed' = closed \cup {m}
    /\ CloseEffects(m, known, closed)
    /\ mwstate' = mwstate \ {m} /\ invested' = invested \ {m}      \* _remove_market(clear=False)
    /\ UNCHANGED <<flags, queue, now>>
    /\ steps' = steps + 1

\* a CLOSED book in live: the market is added / re-opened, the closure is queued
ClosedLive(m) ==
    /\ Live /\ steps < MaxSteps
    /\ closings' = [closings EXCEPT ![m] = @ + 1]
    /\ AddOrReopen(m)
    /\ queue' = Append(queue, m)
    /\ UNCHANGED <<invested, mwstate, calls, summaries, closedAt, now>>
    /\ steps' = steps + 1

\* live: the queued CloseMarketEvent is handled; markets closed for more than an hour are removed
HandleClose ==
    /\ Live /\ queue # <<>>
    /\ LET m == Head(queue) IN
       /\ queue' = Tail(queue)
       /\ IF m \in known
          THEN /\ closed' = closed \cup {m}
               /\ CloseEffects(m, known, closed)
               /\ LET old == {x \in known : x \in closed' /\ closedAt'[x] >= 0 /\ now - closedAt'[x] > 3600}
                  IN /\ known' = known \ old
                     /\ mwstate' = mwstate \ old /\ invested' = invested \ old
          ELSE UNCHANGED <<closed, calls, summaries, closedAt, known, mwstate, invested>>
    /\ UNCHANGED <<flags, closings, now, steps>>

\* live worker marks orders / market cleared
WorkerFlag(m) == /\ Live /\ m \in closed /\ flags[m] < 2 /\ flags' = [flags EXCEPT ![m] = @ + 1]
                 /\ UNCHANGED <<known, closed, invested, mwstate, calls, closings, summaries, closedAt, queue, now, steps>>

Tick == /\ Live /\ queue = <<>> /\ now < 8000   \* queued closures are handled promptly (handler granularity)
         /\ now' = now + 2000
        /\ UNCHANGED <<known, closed, flags, invested, mwstate, calls, closings, summaries, closedAt, queue, steps>>

Next == (\E m \in Markets : Update(m) \/ ClosedSim(m) \/ ClosedLive(m) \/ WorkerFlag(m)) \/ HandleClose \/ Tick
Spec == Init /\ [][Next]_vars

-----------------------------------------------------------------------------
Quiescent == queue = <<>>
\* each receiving strategy is called exactly once per closing update processed
Inv_CallbackOncePerClosingUpdate ==
    Quiescent => \A s \in Strategies : \A m \in Markets :
        calls[s][m] = IF Receives(s, m) THEN closings[m] ELSE 0
Inv_SummaryPerClientPerClose ==
    (~Live /\ Quiescent) => \A m \in Markets : summaries[m] = closings[m] * Cardinality(Clients)
Inv_ClosedFlag == (~Live) => \A m \in Markets : (m \in closed => m \in known)
Inv_ReopenResetsFlags == \A m \in Markets : (m \notin closed) => flags[m] = 0
Inv_StateReleased == (~Live) => \A m \in closed : m \notin mwstate /\ m \notin invested
Inv_LiveRemovesOnlyAfterHour ==
    Live => \A m \in Markets : (closedAt[m] >= 0 /\ m \notin known) => now - closedAt[m] > 3600
Inv_RemovedStateReleased == \A m \in Markets : (m \notin known) => (m \notin mwstate /\ m \notin invested)

Reach_Reclosed == ~(\E m \in Markets : closings[m] >= 2 /\ m \in closed)
Reach_Removed == ~(\E m \in Markets : closedAt[m] >= 0 /\ m \notin known)
=============================================================================
