------------------------------- MODULE RefTrace -------------------------------
(* C19: references produced by the real code, judged against OrderRefs.tla *)
EXTENDS OrderRefs, Json, IOUtils, TLCExt
CONSTANT Props
VARIABLES tid
Cases == JsonDeserialize(IOEnv.TRACE_FILE)
C == Cases[tid]
Viol(name, detail) == PrintT(<<"VIOL", "C19", name, C.id, 0, detail>>)
Ck(name, cond, detail) == IF cond THEN TRUE ELSE Viol(name, detail)

CaseOK ==
    /\ (C.kind = "refs" =>
          /\ \A i \in DOMAIN C.refs :
               LET r == C.refs[i] IN
               /\ Ck("AtMost32", Len(r.ref) <= MaxRef, <<i, Len(r.ref)>>)
               /\ Ck("ValidChars", \A j \in DOMAIN r.ref : r.ref[j] \in ValidCodes, <<i, r.ref>>)
               /\ Ck("Construction", r.ref = Make(r.hash, r.sep, r.idtext), <<i>>)
               /\ Ck("RoundTrip", ParseHash(r.ref) = r.hash /\ ParseId(r.ref) = r.idtext, <<i>>)
               \* resolved by the order-stream processing of a second framework instance
               /\ Ck("ResolvedToOwner", r.resolved_strategy = r.strategy /\ r.resolved_id = r.idtext, <<i, r.strategy, r.resolved_strategy>>))
    /\ (C.kind = "unique" =>
          Ck("Unique", Cardinality({C.ids[i] : i \in DOMAIN C.ids}) = Len(C.ids),
             <<Len(C.ids), Cardinality({C.ids[i] : i \in DOMAIN C.ids})>>))
    /\ (C.kind = "seps" =>
          \A i \in DOMAIN C.seps :
             Ck("InvalidSepRejected", C.seps[i].accepted = ValidSep(C.seps[i].sep), <<C.seps[i]>>))
Init == tid \in 1..Len(Cases) /\ (CaseOK = TRUE)
Next == UNCHANGED tid
=============================================================================
