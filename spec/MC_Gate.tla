------------------------------- MODULE MC_Gate -------------------------------
(***************************************************************************)
(* The risk gate (StrategyExposure._validate) as a state machine on one     *)
(* selection under acknowledgement discipline (a new order is only decided  *)
(* when no earlier order is awaiting acknowledgement):                      *)
(*   Place / Replace  decided by the gate as the implementation computes it *)
(*   Ack, Fill (at the limit or one tick better), Cancel (partial / full),  *)
(*   Lapse                                                                  *)
(* Invariants: every accepted order was within the limits counted in full   *)
(* at the price it rests at, and the brute-force worst-case loss never      *)
(* exceeds the per-selection limit.  Deviation "D1" = the implementation's  *)
(* treatment of REPLACE (old price, order excluded): TLC shows that it      *)
(* breaks both invariants, and that the design without it keeps them.       *)
(***************************************************************************)
EXTENDS Exposure

CONSTANTS MaxSteps, Limit, Deviations      \* Limit in currency units (x100 pence)
VARIABLES pos, steps, bad, tainted
vars == <<pos, steps, bad, tainted>>

LimP4 == Limit * 100 * 100
Prices == {150, 200, 300}
Sizes == {100, 200}

New(side, price, size, status) ==
    [side |-> side, type |-> "LIMIT", lad |-> "CLASSIC", status |-> status, cplt |-> FALSE,
     size |-> size, m |-> 0, can |-> 0, lap |-> 0, void |-> 0, price |-> price, avg |-> 0]

NoPending == \A k \in DOMAIN pos : pos[k].status # "PENDING"
NextLabel == Cardinality(DOMAIN pos) + 1

\* the implementation's decision for an order `o` judged at `price`, against position `p`
GateAccepts(p, o, price) ==
    LET cur == IF o.side = "BACK" THEN -ReportedLose(p) ELSE -ReportedWin(p)
        ox == OrderExposure(o, price)
    IN ox <= LimP4 /\ cur + ox <= LimP4
\* what the property demands: counted in full at the price it will rest at
TrulyWithin(p, o) ==
    LET p2 == [k \in DOMAIN p \cup {0} |-> IF k = 0 THEN [o EXCEPT !.status = "EXECUTABLE"] ELSE p[k]]
        loss == IF o.side = "BACK" THEN -BruteLose(p2) ELSE -BruteWin(p2)
    IN OrderExposure(o, o.price) <= LimP4 /\ loss <= LimP4

Init == pos = <<>> /\ steps = 0 /\ bad = FALSE /\ tainted = FALSE

Place ==
    /\ steps < MaxSteps /\ NoPending
    /\ \E sd \in {"BACK", "LAY"}, pr \in Prices, sz \in Sizes :
         LET o == New(sd, pr, sz, "PENDING") IN
         IF GateAccepts(pos, o, pr)
         THEN /\ pos' = pos @@ (NextLabel :> o)
              /\ bad' = (bad \/ ~TrulyWithin(pos, o))
         ELSE UNCHANGED <<pos, bad>>
    /\ steps' = steps + 1 /\ UNCHANGED tainted

Ack == \E k \in DOMAIN pos : pos[k].status = "PENDING" /\ pos' = [pos EXCEPT ![k].status = "EXECUTABLE"]
       /\ UNCHANGED <<steps, bad, tainted>>

Fill ==
    /\ steps < MaxSteps
    /\ \E k \in DOMAIN pos : \E amt \in {100, 200} : \E better \in {0, 10} :
         /\ pos[k].status = "EXECUTABLE" /\ ERem(pos[k]) >= amt
         /\ LET o == pos[k]
                fp == IF o.side = "BACK" THEN o.price + better ELSE o.price - better
                tot == o.m + amt
                avg == (o.m * o.avg + amt * fp) \div tot
                o2 == [o EXCEPT !.m = tot, !.avg = IF o.side = "BACK" THEN avg ELSE avg + (IF (o.m * o.avg + amt * fp) % tot = 0 THEN 0 ELSE 1)]
            IN pos' = [pos EXCEPT ![k] = IF ERem(o2) = 0 THEN [o2 EXCEPT !.status = "COMPLETE", !.cplt = TRUE] ELSE o2]
    /\ steps' = steps + 1 /\ UNCHANGED <<bad, tainted>>

CancelOrLapse ==
    /\ steps < MaxSteps
    /\ \E k \in DOMAIN pos : \E amt \in {100, 200} :
         /\ pos[k].status = "EXECUTABLE" /\ ERem(pos[k]) >= amt
         /\ LET o2 == [pos[k] EXCEPT !.can = @ + amt]
            IN pos' = [pos EXCEPT ![k] = IF ERem(o2) = 0 THEN [o2 EXCEPT !.status = "COMPLETE", !.cplt = TRUE] ELSE o2]
    /\ steps' = steps + 1 /\ UNCHANGED <<bad, tainted>>

Replace ==
    /\ steps < MaxSteps /\ NoPending
    /\ \E k \in DOMAIN pos : \E np \in Prices :
         /\ pos[k].status = "EXECUTABLE" /\ np # pos[k].price /\ ERem(pos[k]) > 0
         /\ LET o == pos[k]
                rest == [j \in DOMAIN pos \ {k} |-> pos[j]]
                \* the matched part of the original stays in the position
                kept == [pos EXCEPT ![k] = [o EXCEPT !.can = @ + ERem(o), !.status = "COMPLETE", !.cplt = TRUE]]
                r == New(o.side, np, ERem(o), "PENDING")
                accept == IF "D1" \in Deviations
                          THEN GateAccepts(rest, [o EXCEPT !.size = o.size], o.price)     \* old price, whole order excluded
                          ELSE GateAccepts(kept, r, np)
            IN IF accept
               THEN /\ pos' = kept @@ (NextLabel :> r)
                    /\ bad' = (bad \/ ~TrulyWithin(kept, r))
                    /\ tainted' = (tainted \/ ("D1" \in Deviations))
               ELSE UNCHANGED <<pos, bad, tainted>>
    /\ steps' = steps + 1

Next == Place \/ Ack \/ Fill \/ CancelOrLapse \/ Replace
Spec == Init /\ [][Next]_vars

Inv_SentOnlyIfWithin == ~bad
Inv_LossBounded == SelectionLoss(pos) <= LimP4 + 200     \* 2 P4-pence: integer average price rounding
Inv_SentOnlyIfWithinUnlessTainted == tainted \/ ~bad
Inv_LossBoundedUnlessTainted == tainted \/ SelectionLoss(pos) <= LimP4 + 200
Reach_Filled == ~(\E k \in DOMAIN pos : pos[k].m > 0 /\ Cardinality(DOMAIN pos) >= 2)
Reach_D1Breach == ~(tainted /\ SelectionLoss(pos) > LimP4 + 200)
=============================================================================
