------------------------------- MODULE BdqTrace -------------------------------
(***************************************************************************)
(* Trace validation for the BETDAQ order path: traces recorded by           *)
(* harness/bdqdrv.py (real Flumine + BetdaqExecution + process_betdaq_      *)
(* current_orders against an exchange double) are checked step by step      *)
(*   Layer R: the recorded state after every step is the one Betdaq!Step    *)
(*            computes from the recorded state before it and the event      *)
(*   Layer P: the C03 formulas on every step (lifecycle, guards, rejected   *)
(*            requests without effect, one operation in flight, finality)   *)
(***************************************************************************)
EXTENDS Betdaq, Json, IOUtils, TLCExt
CONSTANT Props
VARIABLES tid, l
Traces == JsonDeserialize(IOEnv.TRACE_FILE)
NSteps(t) == Len(Traces[t].steps)
S(i) == Traces[tid].steps[i]
Viol(prop, name, detail) == PrintT(<<"VIOL", prop, name, Traces[tid].id, l + 1, detail>>)
Drift(name, detail) == PrintT(<<"DRIFT", name, Traces[tid].id, l + 1, detail>>)
Ck(prop, name, cond, detail) == IF cond THEN TRUE ELSE Viol(prop, name, detail)

\* the recorded state restricted to the fields of the model
POrd(r) == [status |-> r.status, bet |-> r.bet, m |-> r.m, rem |-> r.rem, seq |-> r.seq, live |-> r.live,
            price |-> r.price, newp |-> r.newp, size |-> r.size]
PState(st) == [ord |-> [o \in DOMAIN st.ord |-> POrd(st.ord[o])], x |-> st.x, xseq |-> st.xseq, pool |-> st.pool,
               wire |-> st.wire, hq |-> st.hq, polled |-> st.polled]
\* the event as the model takes it
Ev(e) == IF e.ev = "call" THEN [ev |-> "call", a |-> [kind |-> e.a.kind, oc |-> e.a.oc, codes |-> e.a.codes, missing |-> SeqToSet(e.a.missing)]]
         ELSE IF e.ev = "req" THEN [ev |-> "req", a |-> [txn |-> e.a.txn],
                                    reqs |-> [i \in DOMAIN e.reqs |-> [kind |-> e.reqs[i].kind, o |-> e.reqs[i].o, price |-> e.reqs[i].price, size |-> e.reqs[i].size]]]
         ELSE [ev |-> e.ev, a |-> e.a]

DiffOrd(a, b) == {o \in DOMAIN a \cup DOMAIN b : ~(o \in DOMAIN a /\ o \in DOMAIN b /\ a[o] = b[o])}
LayerR(pre, e) ==
    LET want == Step(PState(pre), Ev(e))
        got == PState(e.st)
    IN IF want = got THEN TRUE
       ELSE Drift(e.ev, <<"ord", {<<o, IF o \in DOMAIN want.ord THEN want.ord[o] ELSE <<>>, IF o \in DOMAIN got.ord THEN got.ord[o] ELSE <<>>>> : o \in DiffOrd(want.ord, got.ord)},
                         "x", DiffOrd(want.x, got.x), "pool", want.pool = got.pool, "wire", <<want.wire, got.wire>>, "hq", want.hq = got.hq,
                         "seq", <<want.xseq, got.xseq, want.polled, got.polled>>>>)

\* the verdict of every request is the model's (judged against the state the request met, which the driver
\* recorded as `before`)
P_C03(pre, e) ==
    LET post == e.st IN
    /\ Ck("C03", "LegalTransition", \A i \in DOMAIN e.trans : <<e.trans[i][2], e.trans[i][3]>> \in LegalPairs,
          {<<e.trans[i][1], e.trans[i][2], e.trans[i][3], e.trans[i][4]>> : i \in {j \in DOMAIN e.trans : <<e.trans[j][2], e.trans[j][3]>> \notin LegalPairs}})
    /\ Ck("C03", "Finality", FinalityBroken(pre, post) = {}, FinalityBroken(pre, post))
    /\ \A i \in DOMAIN e.reqs :
          LET q == e.reqs[i] IN
          /\ Ck("C03", "RequestGuards",
                ~(q.r = "ACCEPT" /\ q.kind \in {"CANCEL", "UPDATE"} /\ ~(q.before.status = "EXECUTABLE" /\ q.before.bet)), <<q.kind, q.o, q.before.status>>)
          /\ Ck("C03", "InFlightRejected",
                ~(q.r = "ACCEPT" /\ q.kind \in {"CANCEL", "UPDATE"} /\ \E j \in DOMAIN Outstanding(pre) : q.o \in SeqToSet(Outstanding(pre)[j].orders)),
                <<q.kind, q.o, Outstanding(pre)>>)
          /\ Ck("C03", "RejectedNoEffect",
                ~(q.r \in {"ERROR", "REFUSE"} /\ q.kind # "PLACE" /\ "before" \in DOMAIN q /\ POrd(q.before) # POrd(q.after)), <<q.kind, q.o, q.r>>)
    /\ Ck("C03", "OneInFlight", \A o \in DOMAIN post.ord : InFlightCount(post, o) <= 1, {o \in DOMAIN post.ord : InFlightCount(post, o) > 1})
    /\ Ck("C03", "InFlightStatusWhileOutstanding", InFlightWrong(post) = {}, InFlightWrong(post))
    /\ (e.ev \in {"resp", "nobuild"} => Ck("C03", "NoEscapingException", e.a.err = "", e.a.err))
    \* each report of an answer is applied to the order it belongs to: rejected / unanswered -> back to EXECUTABLE (a
    \* failed placement: complete), accepted update -> stays UPDATING until the poll confirms it, cancel reported ->
    \* complete; an order that completed meanwhile stays complete
    /\ ((e.ev = "resp" /\ pre.wire # <<>>) =>
          LET want == StepResp(PState(pre), Ev(e)) IN
          \A i \in DOMAIN pre.wire[1].orders :
             LET o == pre.wire[1].orders[i] IN
             Ck("C03", "ResponseToOwner", want.ord[o].status = post.ord[o].status,
                <<pre.wire[1].kind, o, "code", pre.wire[1].codes[o], "before", pre.ord[o].status, "expected", want.ord[o].status, "got", post.ord[o].status>>))

\* C15 on the BETDAQ path: the live list holds every order that is not complete, loses an order only once it is
\* complete, and every placed order is in the blotter of its market (the very object: recorded as `inbl`)
P_C15(pre, e) ==
    LET post == e.st IN
    /\ Ck("C15", "LiveListComplete",
          \A o \in DOMAIN post.ord : (post.ord[o].status \in {"PENDING", "EXECUTABLE", "CANCELLING", "UPDATING"}) => post.ord[o].live,
          {o \in DOMAIN post.ord : post.ord[o].status \in {"PENDING", "EXECUTABLE", "CANCELLING", "UPDATING"} /\ ~post.ord[o].live})
    /\ Ck("C15", "RemovedOnlyAfterComplete",
          \A o \in DOMAIN pre.ord \cap DOMAIN post.ord : (pre.ord[o].live /\ ~post.ord[o].live) => post.ord[o].status \in {"COMPLETE", "VIOLATION"},
          {o \in DOMAIN pre.ord \cap DOMAIN post.ord : pre.ord[o].live /\ ~post.ord[o].live /\ post.ord[o].status \notin {"COMPLETE", "VIOLATION"}})
    /\ Ck("C15", "LiveInBlotter", \A o \in DOMAIN post.ord : post.ord[o].live => post.ord[o].inbl, {o \in DOMAIN post.ord : post.ord[o].live /\ ~post.ord[o].inbl})
    /\ Ck("C15", "PlacedStaysInBlotter", \A o \in DOMAIN pre.ord \cap DOMAIN post.ord : pre.ord[o].inbl => post.ord[o].inbl,
          {o \in DOMAIN pre.ord \cap DOMAIN post.ord : pre.ord[o].inbl /\ ~post.ord[o].inbl})
    \* a complete order leaves the live list when the main loop next processes a poll showing it
    /\ (e.ev = "proc" => Ck("C15", "CompleteLeavesOnPoll",
          \A i \in DOMAIN (IF pre.hq = <<>> THEN <<>> ELSE pre.hq[1]) :
             LET o == pre.hq[1][i].o IN (Has(post.ord, o) /\ post.ord[o].status = "COMPLETE") => ~post.ord[o].live,
          IF pre.hq = <<>> THEN <<>> ELSE pre.hq[1]))

StepOK(pre, e) ==
    /\ ("R" \in Props => LayerR(pre, e))
    /\ ("C03" \in Props => P_C03(pre, e))
    /\ ("C15" \in Props => P_C15(pre, e))

Init == tid \in 1..Len(Traces) /\ l = 1
Next == /\ l < NSteps(tid)
        /\ (StepOK(S(l).st, S(l + 1)) = TRUE)
        /\ l' = l + 1
        /\ UNCHANGED tid
=============================================================================
