---------------------------- MODULE MC_EventMerge ----------------------------
(* every set of <= K streams of <= N updates with publish times from Times (ties, unequal
   lengths, empty streams): the merge is chronological, keeps each market's own order and
   delivers every update exactly once; the filter never reorders or duplicates. *)
EXTENDS EventMerge
CONSTANTS Names, Times, N, Mode      \* Mode "merge" or "filter" (independent spaces)
VARIABLES pts, step, lines, L
vars == <<pts, step, lines, L>>

NonDecr(q) == \A i \in 1..(Len(q) - 1) : q[i] <= q[i + 1]
Seqs == UNION {[1..n -> Times] : n \in 0..N}
OrderOf == CHOOSE o \in [1..Cardinality(Names) -> Names] : \A i, j \in DOMAIN o : i # j => o[i] # o[j]

Upd == [pt : Times, status : {"OPEN", "SUSPENDED"}, inplay : BOOLEAN, mtime : {3}]
Init ==
    /\ step = 0
    /\ IF Mode = "merge"
       THEN /\ pts \in [Names -> {q \in Seqs : NonDecr(q)}]
            /\ lines = <<>> /\ L = [inplay |-> "NONE", sts |-> -1, maxinplay |-> -1]
       ELSE /\ pts = [n \in Names |-> <<>>]
            /\ lines \in UNION {[1..n -> Upd] : n \in 0..3}
            /\ L \in [inplay : {"NONE", "TRUE", "FALSE"}, sts : {-1, 1}, maxinplay : {-1, 1}]
Next == step = 0 /\ step' = 1 /\ UNCHANGED <<pts, lines, L>>
Spec == Init /\ [][Next]_vars

D == Merge(OrderOf, pts)
Inv_MergeSorted == Sorted(D)
Inv_PerMarketOrderKeptExactlyOnce == PerStreamOrderKept(D, pts)
RECURSIVE TotalLen(_)
TotalLen(k) == IF k = 0 THEN 0 ELSE Len(pts[OrderOf[k]]) + TotalLen(k - 1)
Inv_Count == Len(D) = TotalLen(Cardinality(Names))
F == Filter(lines, L)
Inv_FilterSubsequence ==
    /\ Len(F) <= Len(lines)
    /\ \E idx \in [1..Len(F) -> 1..Len(lines)] :
          (\A i \in 1..(Len(F) - 1) : idx[i] < idx[i + 1]) /\ \A i \in DOMAIN F : F[i] = lines[idx[i]].pt
Inv_NoFilterDeliversAll == (L.inplay = "NONE" /\ L.sts = -1 /\ L.maxinplay = -1) => Len(F) = Len(lines)
Inv_ClosedAlwaysDelivered == \A i \in DOMAIN lines : lines[i].status # "OPEN" => \E j \in DOMAIN F : F[j] = lines[i].pt
=============================================================================
