------------------------------ MODULE MC_Betdaq ------------------------------
(***************************************************************************)
(* Design model of the BETDAQ order path (Betdaq.tla) for a few orders:     *)
(* every interleaving of strategy requests, runs of the execution thread    *)
(* with every outcome (answer with return codes / reports missing / the     *)
(* call raising, applied or not; the response handled later than the call), *)
(* fills and cancellations at the exchange,                                 *)
(* polls taken and polls processed.                                         *)
(* Checked: the documented lifecycle, finality of COMPLETE, at most one     *)
(* operation per order outstanding.  `last` (hidden by View) carries the    *)
(* event taken so that TLC's behaviours can be replayed into the real code. *)
(***************************************************************************)
EXTENDS Betdaq

CONSTANTS Orders, MaxSteps, MaxPolls
VARIABLES s, steps, last,
          taint      \* deviations of the implementation met on the way (known findings), see D26Step
vars == <<s, steps, last, taint>>
View == <<s, steps, taint>>

Size == 2
Init == s = InitState /\ steps = 0 /\ last = [ev |-> "init"] /\ taint = {}

\* D26: process_betdaq_current_order takes ANY new sequence number of an UPDATING order for the confirmation of
\* its update (the first poll after the placement, a fill): the order is reset to EXECUTABLE / completed and its
\* update data dropped while the update request is still queued or on the wire
D26Step(st, e) ==
    /\ e.ev = "proc" /\ st.hq # <<>>
    /\ \E i \in DOMAIN Head(st.hq) :
          LET c == Head(st.hq)[i] IN
          /\ Has(st.ord, c.o) /\ st.ord[c.o].status = "UPDATING" /\ st.ord[c.o].seq # c.seq /\ OpenAtExchange(c.status)
          /\ \/ \E j \in DOMAIN st.pool : st.pool[j].kind = "UPDATE" /\ c.o \in SeqToSet(st.pool[j].orders)
             \* on the wire: genuine only if the exchange applied the update and the polled entry already shows it
             \/ /\ st.wire # <<>> /\ st.wire[1].kind = "UPDATE" /\ c.o \in SeqToSet(st.wire[1].orders)
                /\ ~(c.o \in SeqToSet(st.wire[1].applied) /\ c.price = st.ord[c.o].newp)

\* D27: the failure path of execute_update (the call raised - although the exchange may have applied it - or an error
\* code) resets every order of the package to EXECUTABLE whatever the order is doing by then: an order whose update was
\* confirmed by a poll meanwhile and which has accepted a new request is pulled out of CANCELLING / UPDATING while
\* that request is outstanding
D27Step(st, e) ==
    /\ e.ev = "resp" /\ st.wire # <<>> /\ st.wire[1].kind = "UPDATE"
    /\ \E o \in SeqToSet(st.wire[1].orders) :
          /\ ~(st.wire[1].oc = "answer" /\ st.wire[1].codes[o] = 0)
          /\ st.ord[o].status \in {"CANCELLING", "UPDATING"}
          /\ \E j \in DOMAIN st.pool : o \in SeqToSet(st.pool[j].orders)

Req(kind, o, price) == [ev |-> "req", a |-> [txn |-> FALSE], reqs |-> <<[kind |-> kind, o |-> o, price |-> price, size |-> Size]>>]
ReqTxn(kind, price) == [ev |-> "req", a |-> [txn |-> TRUE],
                         reqs |-> LET os == CHOOSE q \in [1..Cardinality(Orders) -> Orders] : \A i, j \in DOMAIN q : i # j => q[i] # q[j]
                                  IN [i \in DOMAIN os |-> [kind |-> kind, o |-> os[i], price |-> price, size |-> Size]]]
Events ==
    {Req("PLACE", o, 200) : o \in {k \in Orders : ~Has(s.ord, k)}}
    \cup {Req("CANCEL", o, 0) : o \in DOMAIN s.ord}
    \cup {Req("UPDATE", o, 300) : o \in DOMAIN s.ord}
    \* all orders in one transaction: one package holding every accepted order
    \cup (IF Cardinality(Orders) > 1 /\ s.ord = <<>> THEN {ReqTxn("PLACE", 200)} ELSE {})
    \cup (IF Cardinality(Orders) > 1 /\ DOMAIN s.ord = Orders THEN {ReqTxn("CANCEL", 0), ReqTxn("UPDATE", 300)} ELSE {})
    \* the execution thread: one call at a time; its response is handled later
    \cup (IF s.pool = <<>> \/ s.wire # <<>> THEN {}
          ELSE IF ~Buildable(s) THEN {[ev |-> "nobuild", a |-> [n |-> 0]]}
          ELSE LET p == Head(s.pool)
                   os == SeqToSet(Sent(s, p))
               IN {[ev |-> "call", a |-> [kind |-> p.kind, oc |-> oc, codes |-> cs, missing |-> ms]] :
                      oc \in {"answer", "raise", "raise_applied"}, cs \in [os -> {0, 136}],
                      ms \in (IF p.kind = "CANCEL" THEN SUBSET os ELSE {{}})})
    \cup (IF s.wire # <<>> THEN {[ev |-> "resp", a |-> [n |-> 0]]} ELSE {})
    \cup {[ev |-> "xfill", a |-> [o |-> o, amount |-> amt]] : o \in {k \in DOMAIN s.x : OpenAtExchange(s.x[k].status)}, amt \in 1..Size}
    \cup {[ev |-> "xcancel", a |-> [o |-> o]] : o \in {k \in DOMAIN s.x : OpenAtExchange(s.x[k].status)}}
    \cup (IF Len(s.hq) < MaxPolls THEN {[ev |-> "snap", a |-> [n |-> 0]]} ELSE {})
    \cup (IF s.hq # <<>> THEN {[ev |-> "proc", a |-> [n |-> 0]]} ELSE {})

\* (outcomes that do not matter for the kind are collapsed: a raising call carries no codes)
Canon(e) == IF e.ev = "call" /\ e.a.oc # "answer" THEN [e EXCEPT !.a.codes = [k \in DOMAIN e.a.codes |-> 0], !.a.missing = {}] ELSE e

Next == /\ steps < MaxSteps
        /\ \E e \in Events :
             /\ e = Canon(e)
             /\ Step(s, e) # s \/ e.ev \in {"req", "call", "resp", "nobuild"}
             /\ s' = Step(s, e) /\ steps' = steps + 1 /\ last' = e
             /\ taint' = taint \cup (IF D26Step(s, e) THEN {"D26"} ELSE {}) \cup (IF D27Step(s, e) THEN {"D27"} ELSE {})
Spec == Init /\ [][Next]_vars

-----------------------------------------------------------------------------
Statuses == {"PENDING", "EXECUTABLE", "CANCELLING", "UPDATING", "COMPLETE", "VIOLATION"}
TypeOK == \A o \in DOMAIN s.ord : s.ord[o].status \in Statuses /\ s.ord[o].m >= 0 /\ s.ord[o].m <= Size
\* every status change follows the documented lifecycle
Prop_C03_Lifecycle == [][StatusStep(s, s') \subseteq (LegalPairs \cup {<<x, x>> : x \in Statuses})]_vars
\* complete is final
Prop_C03_Finality == [][FinalityBroken(s, s') = {}]_vars
\* at most one operation per order is ever outstanding, and the order shows it
\* (both hold on every behaviour that does not pass through the known deviation D26; TLC exhibits the breach
\*  behind it: Reach_D26_TwoInFlight)
Inv_C03_OneInFlight == taint = {} => \A o \in DOMAIN s.ord : InFlightCount(s, o) <= 1
Inv_C03_InFlightStatus == taint = {} => InFlightWrong(s) = {}
\* a request is accepted only for an order resting executable with a known bet id (by construction of
\* ReqVerdict; stated on the states: an in-flight status implies the bet id)
Inv_C03_BetKnown == \A o \in DOMAIN s.ord : s.ord[o].status \in {"CANCELLING", "UPDATING"} => s.ord[o].bet
\* the local copy never shows more matched than the exchange has matched
Inv_MatchedBounded == \A o \in DOMAIN s.ord : s.ord[o].m > 0 => (Has(s.x, o) /\ s.ord[o].m <= s.x[o].m)

\* witnesses (each must be reachable)
Reach_D26_TwoInFlight == ~("D26" \in taint /\ \E o \in DOMAIN s.ord : InFlightCount(s, o) > 1)
Reach_D27_ResetWhileCancelling == ~(taint = {"D27"} /\ InFlightWrong(s) # {})
Reach_CompleteWhileUpdateInFlight ==
    ~(\E o \in DOMAIN s.ord : s.ord[o].status = "COMPLETE" /\ \E i \in DOMAIN s.pool : s.pool[i].kind = "UPDATE" /\ o \in SeqToSet(s.pool[i].orders))
Reach_PolledWhileOnTheWire ==     \* a poll showing the order is processed between the exchange booking a placement and its response
    ~(s.wire # <<>> /\ s.wire[1].kind = "PLACE" /\ \E o \in SeqToSet(s.wire[1].orders) : Has(s.ord, o) /\ s.ord[o].seq # -1 /\ ~s.ord[o].bet)
Reach_UpdatedPrice == ~(\E o \in DOMAIN s.ord : s.ord[o].price = 300 /\ s.ord[o].status = "EXECUTABLE")
Reach_CancelledByExchange == ~(\E o \in DOMAIN s.ord : s.ord[o].status = "COMPLETE" /\ Has(s.x, o) /\ s.x[o].status = "Cancelled" /\ s.ord[o].m = 1)
=============================================================================
