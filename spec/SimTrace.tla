------------------------------ MODULE SimTrace ------------------------------
(***************************************************************************)
(* Trace validation for simulation-mode traces recorded from the real code  *)
(* by harness/simdrv.py.  A batch of traces is read from the JSON file      *)
(* named by the environment variable TRACE_FILE; TLC explores one linear    *)
(* behaviour per trace (variables tid, l).                                  *)
(*                                                                          *)
(* Layer P: the property formulas of SimProps evaluated on every recorded   *)
(*          state / step.  A false formula prints a VIOL line (decides      *)
(*          VIOLATION).                                                     *)
(* Layer R: the recorded step must be the step of the specification:        *)
(*          SimCore!Step(s_l, e_{l+1}, oracle) = s_{l+1}.  A mismatch prints *)
(*          a DRIFT line (code and spec disagree; no property formula is    *)
(*          false).                                                         *)
(* Verdict lines are produced with PrintT and the formulas themselves       *)
(* always evaluate to TRUE, so one TLC run reports every failing clause of  *)
(* every trace (total verdicts).                                            *)
(***************************************************************************)
EXTENDS SimProps, Json, IOUtils, TLCExt

CONSTANT Props        \* which formula families to evaluate, e.g. {"R", "C03", "C04"}

VARIABLES tid, l

Traces == JsonDeserialize(IOEnv.TRACE_FILE)
NSteps(t) == Len(Traces[t].steps)
S(i) == Traces[tid].steps[i]
\* states are stored once in a table of distinct states; the clock travels with the step
St(i) == Traces[tid].states[S(i).si] @@ [clock |-> S(i).clock]
\* the step record as the formulas see it (with its post-state)
E(i) == S(i) @@ [st |-> St(i)]

Viol(prop, name, detail) == PrintT(<<"VIOL", prop, name, Traces[tid].id, l + 1, detail>>)
Drift(name, detail) == PrintT(<<"DRIFT", name, Traces[tid].id, l + 1, detail>>)
Ck(prop, name, cond, detail) == IF cond THEN TRUE ELSE Viol(prop, name, detail)

DiffRec(a, b) == {f \in DOMAIN a \cup DOMAIN b : ~(f \in DOMAIN a /\ f \in DOMAIN b /\ a[f] = b[f])}
DiffMap(a, b) ==
    {<<k, IF k \in DOMAIN a /\ k \in DOMAIN b THEN DiffRec(a[k], b[k]) ELSE {"<missing>"}>> :
        k \in {x \in DOMAIN a \cup DOMAIN b : ~(x \in DOMAIN a /\ x \in DOMAIN b /\ a[x] = b[x])}}

Oracle(e) == [ord |-> e.st.ord, mkt |-> e.st.mkt,
              rlab |-> IF e.ev = "exec" THEN e.a.rlab ELSE <<>>]

-----------------------------------------------------------------------------
(* Layer R *)
Conforms(pre, e) ==
    LET exp == Step(pre, e, Oracle(e))
        got == e.st
    IN IF exp = got THEN TRUE
       ELSE Drift(e.ev,
                  <<DiffRec(exp, got) \ {"ord", "trd", "rc", "mkt"},
                    "ord", DiffMap(exp.ord, got.ord), "trd", DiffMap(exp.trd, got.trd),
                    "rc", DiffMap(exp.rc, got.rc), "mkt", DiffMap(exp.mkt, got.mkt)>>)

\* request verdicts the specification determines
RECURSIVE ReqVerdicts(_, _, _)
ReqVerdicts(s, qs, i) ==
    IF qs = <<>> THEN TRUE
    ELSE LET q == Head(qs)
             ex == Expected(s, q)
             ok == \/ ex = "ANY"
                   \/ ex = q.r
                   \/ (ex = "ERRORorREFUSE" /\ q.r \in {"ERROR", "REFUSE"})
         IN /\ (IF ok THEN TRUE ELSE Drift("verdict", <<i, q.kind, q.o, "expected", ex, "got", q.r>>))
            /\ ReqVerdicts(ReqOne(s, q), Tail(qs), i + 1)

-----------------------------------------------------------------------------
(* Layer P *)
P_C03(pre, e) ==
    LET post == e.st IN
    /\ Ck("C03", "LegalTransition", IllegalTransitions(e) = {},
          {e.trans[i] : i \in IllegalTransitions(e)})
    /\ Ck("C03", "Finality", FinalityBroken(pre, post) = {}, FinalityBroken(pre, post))
    /\ Ck("C03", "OneInFlight", OneInFlight(post), "")
    /\ \A i \in DOMAIN e.reqs :
          /\ Ck("C03", "RequestGuards", ~BadAccept(pre, e.reqs[i]), <<e.reqs[i].kind, e.reqs[i].o>>)
          /\ Ck("C03", "RejectedNoEffect",
                ~(e.reqs[i].r = "ERROR" /\ "before" \in DOMAIN e.reqs[i] /\ e.reqs[i].before # e.reqs[i].after),
                <<e.reqs[i].kind, e.reqs[i].o, e.reqs[i].r>>)

P_C04(pre, e) ==
    LET post == e.st IN
    /\ \A o \in DOMAIN post.ord :
          /\ Ck("C04", "Conserved", Conserved(post.ord[o]), o)
          /\ (e.ev = "cb" => Ck("C04", "NonNeg", NonNeg(post.ord[o]), o))
          /\ (e.ev = "cb" => Ck("C04", "CompleteIffNothingRemains",
                                CompleteIffNothingRemains(post.ord[o]), <<o, post.ord[o].status, Rem(post.ord[o])>>))
          /\ (o \in DOMAIN pre.ord =>
                Ck("C04", "MatchedMonotone", MatchedMonotone(pre.ord[o], post.ord[o]), o))

\* end of an update = the state in which the next update (or the end of the run) finds the system
EndOfUpdate(e) == e.ev \in {"upd", "end"}
P_C10(pre, e) ==
    /\ (EndOfUpdate(e) =>
          /\ Ck("C10", "LiveTradesExact", LiveTradesWrong(pre) = {}, LiveTradesWrong(pre))
          /\ Ck("C10", "TradeCompleteIff", TradeStatusWrong(pre) = {}, TradeStatusWrong(pre))
          /\ Ck("C10", "NoTradePending", TradePendingLeft(pre) = {}, TradePendingLeft(pre))
          /\ Ck("C10", "RcListsClean", RcListsClean(pre), ""))
    /\ (e.ev = "cb" =>
          LET RECURSIVE Walk(_, _)
              Walk(s, qs) ==
                 IF qs = <<>> THEN TRUE
                 ELSE LET q == Head(qs)
                          s2 == ReqOne(s, q)
                      IN /\ Ck("C10", "LimitsHold",
                               ~(q.kind = "PLACE" /\ q.r = "ACCEPT" /\ AcceptViolatesLimits(s, q, s2)),
                               <<q.o, q.t>>)
                         /\ Walk(s2, Tail(qs))
          IN Walk(pre, e.reqs))

P_C15(pre, e) ==
    LET post == e.st IN
    /\ (EndOfUpdate(e) =>
          Ck("C15", "LiveListComplete", LiveListIncomplete(pre) = {}, LiveListIncomplete(pre)))
    /\ Ck("C15", "RemovedOnlyAfterComplete", LeftLiveWhileIncomplete(pre, post) = {},
          LeftLiveWhileIncomplete(pre, post))
    /\ Ck("C15", "LiveInBlotter", LiveNotInBlotter(post) = {}, LiveNotInBlotter(post))

P_C07(pre, e) ==
    LET post == e.st IN
    /\ Ck("C07", "ExecutedWhenDue", ~ExecNotDue(pre, e), <<e.a>>)
    /\ (e.ev = "pend" =>
          Ck("C07", "NoDuePackageLeft", SurvivingDue(post, e.a.mid) = {}, SurvivingDue(post, e.a.mid)))

-----------------------------------------------------------------------------
StepOK(pre, e) ==
    /\ ("R" \in Props => (Conforms(pre, e) /\ (e.ev = "cb" => ReqVerdicts(pre, e.reqs, 1))))
    /\ ("C03" \in Props => P_C03(pre, e))
    /\ ("C04" \in Props => P_C04(pre, e))
    /\ ("C10" \in Props => P_C10(pre, e))
    /\ ("C15" \in Props => P_C15(pre, e))
    /\ ("C07" \in Props => P_C07(pre, e))

Init == tid \in 1..Len(Traces) /\ l = 1
Next == /\ l < NSteps(tid)
        /\ (StepOK(St(l), E(l + 1)) = TRUE)   \* "= TRUE": evaluate as a value, no action-level splitting
        /\ l' = l + 1
        /\ UNCHANGED tid

\* acceptance: every trace is consumed to its end (counted by the harness from the
\* number of distinct states: sum of trace lengths)
=============================================================================
