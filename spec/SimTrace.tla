------------------------------ MODULE SimTrace ------------------------------
(***************************************************************************)
(* Trace validation for simulation-mode traces recorded from the real code  *)
(* by harness/simdrv.py.  A batch of traces is read from the JSON file      *)
(* named by the environment variable TRACE_FILE; TLC explores one linear    *)
(* behaviour per trace (variables tid, l).                                  *)
(*                                                                          *)
(* Layer P: the property formulas of SimProps evaluated on every recorded   *)
(*          state / step.  A false formula prints a VIOL line (decides      *)
(*          VIOLATION).                                                     *)
(* Layer R: the recorded step must be the step of the specification:        *)
(*          SimCore!Step(s_l, e_{l+1}, oracle) = s_{l+1}.  A mismatch prints *)
(*          a DRIFT line (code and spec disagree; no property formula is    *)
(*          false).                                                         *)
(* Verdict lines are produced with PrintT and the formulas themselves       *)
(* always evaluate to TRUE, so one TLC run reports every failing clause of  *)
(* every trace (total verdicts).                                            *)
(***************************************************************************)
EXTENDS SimProps, SimMatch, Json, IOUtils, TLCExt
STL == INSTANCE Settlement
EXP == INSTANCE Exposure
TXC == INSTANCE TxnCount

CONSTANT Props        \* which formula families to evaluate, e.g. {"R", "C03", "C04"}

VARIABLES tid, l

Traces == JsonDeserialize(IOEnv.TRACE_FILE)
NSteps(t) == Len(Traces[t].steps)
S(i) == Traces[tid].steps[i]
\* states are stored once in a table of distinct states; the clock travels with the step
St(i) == Traces[tid].states[S(i).si] @@ [clock |-> S(i).clock]
\* the step record as the formulas see it (with its post-state)
E(i) == S(i) @@ [st |-> St(i)]

Viol(prop, name, detail) == PrintT(<<"VIOL", prop, name, Traces[tid].id, l + 1, detail>>)
Drift(name, detail) == PrintT(<<"DRIFT", name, Traces[tid].id, l + 1, detail>>)
Ck(prop, name, cond, detail) == IF cond THEN TRUE ELSE Viol(prop, name, detail)
Inexact(rb, f) == f \in DOMAIN rb /\ rb[f]     \* flags of the projection: value not representable in cents

DiffRec(a, b) == {f \in DOMAIN a \cup DOMAIN b : ~(f \in DOMAIN a /\ f \in DOMAIN b /\ a[f] = b[f])}
DiffMap(a, b) ==
    {<<k, IF k \in DOMAIN a /\ k \in DOMAIN b THEN DiffRec(a[k], b[k]) ELSE {"<missing>"}>> :
        k \in {x \in DOMAIN a \cup DOMAIN b : ~(x \in DOMAIN a /\ x \in DOMAIN b /\ a[x] = b[x])}}

Oracle(e) == [ord |-> e.st.ord, mkt |-> e.st.mkt,
              rlab |-> IF e.ev = "exec" THEN e.a.rlab ELSE <<>>]

-----------------------------------------------------------------------------
(* Layer R *)
\* a runner context that was only looked up (no trade placed or reset yet) is the same as none
NormRc(s) == [s EXCEPT !.rc = [k \in {x \in DOMAIN s.rc : s.rc[x].trades # <<>> \/ s.rc[x].live # <<>>
                                                         \/ s.rc[x].lastp >= 0 \/ s.rc[x].lastr >= 0} |-> s.rc[k]]]
Conforms(pre, e) ==
    LET exp == NormRc(Step(pre, e, Oracle(e)))
        got == NormRc(e.st)
    IN IF exp = got THEN TRUE
       ELSE Drift(e.ev,
                  <<DiffRec(exp, got) \ {"ord", "trd", "rc", "mkt"},
                    "ord", DiffMap(exp.ord, got.ord), "trd", DiffMap(exp.trd, got.trd),
                    "rc", DiffMap(exp.rc, got.rc), "mkt", DiffMap(exp.mkt, got.mkt)>>)

\* request verdicts the specification determines
RECURSIVE ReqVerdicts(_, _, _)
ReqVerdicts(s, qs, i) ==
    IF qs = <<>> THEN TRUE
    ELSE LET q == Head(qs)
             ex == Expected(s, q)
             ok == \/ ex = "ANY"
                   \/ ex = q.r
                   \/ (ex = "ERRORorREFUSE" /\ q.r \in {"ERROR", "REFUSE"})
         IN /\ (IF ok THEN TRUE ELSE Drift("verdict", <<i, q.kind, q.o, "expected", ex, "got", q.r>>))
            /\ ReqVerdicts(ReqOne(s, q), Tail(qs), i + 1)

-----------------------------------------------------------------------------
(* Layer P *)
P_C03(pre, e) ==
    LET post == e.st IN
    /\ Ck("C03", "LegalTransition", IllegalTransitions(e) = {},
          {e.trans[i] : i \in IllegalTransitions(e)})
    /\ Ck("C03", "Finality", FinalityBroken(pre, post) = {}, FinalityBroken(pre, post))
    /\ Ck("C03", "OneInFlight", OneInFlight(post), "")
    /\ \A i \in DOMAIN e.reqs :
          /\ Ck("C03", "RequestGuards", ~BadAccept(pre, e.reqs[i]), <<e.reqs[i].kind, e.reqs[i].o>>)
          /\ Ck("C03", "RejectedNoEffect",
                ~(e.reqs[i].r = "ERROR" /\ "before" \in DOMAIN e.reqs[i] /\ e.reqs[i].before # e.reqs[i].after),
                <<e.reqs[i].kind, e.reqs[i].o, e.reqs[i].r>>)

\* a bet is voided by the middleware only because its runner was removed (detected from the books by the
\* recorder, not from the middleware's own list): an early LOSER / WINNER / HIDDEN is not a removal
VoidOnlyOnRemoval(pre, e) ==
    e.ev = "mw" =>
       \A o \in DOMAIN pre.ord :
          (Has(e.st.ord, o) /\ e.st.ord[o].void > pre.ord[o].void) =>
             \E i \in DOMAIN e.a.newly_removed : e.a.newly_removed[i][1] = pre.ord[o].selk

P_C04(pre, e) ==
    LET post == e.st IN
    /\ Ck("C04", "VoidOnlyOnRemoval", VoidOnlyOnRemoval(pre, e), "")
    /\ \A o \in DOMAIN post.ord :
          /\ Ck("C04", "Conserved", Conserved(post.ord[o]), o)
          /\ (e.ev = "cb" => Ck("C04", "NonNeg", NonNeg(post.ord[o]), o))
          /\ (e.ev = "cb" => Ck("C04", "CompleteIffNothingRemains",
                                CompleteIffNothingRemains(post.ord[o]), <<o, post.ord[o].status, Rem(post.ord[o])>>))
          /\ (o \in DOMAIN pre.ord =>
                Ck("C04", "MatchedMonotone", MatchedMonotone(pre.ord[o], post.ord[o]), o))

\* the two clocks the cool-downs are measured from, recomputed from what happened in the step:
\* "last reset" restarts exactly when a PLACED trade of the runner completes, "last placed" exactly
\* when a placement on the runner is accepted
RcClocks(pre, e) ==
    LET post == e.st IN
    \A k \in DOMAIN post.rc :
       LET was == IF Has(pre.rc, k) THEN pre.rc[k] ELSE EmptyRc
           now == post.rc[k]
           \* placed = charged to the runner, or holding an order that is in the blotter (the runner's accounting is
           \* released when its market closes; a re-opened market's trades are still placed trades)
           placedTrades == SeqToSet(was.trades) \cup SeqToSet(now.trades) \cup {t \in DOMAIN post.trd : TradePlaced(post, t)}
           done == {t \in DOMAIN post.trd : /\ post.trd[t].rck = k /\ t \in placedTrades
                                             /\ post.trd[t].status = "COMPLETE"
                                             /\ (~Has(pre.trd, t) \/ pre.trd[t].status # "COMPLETE")}
           neverPlacedDone == {t \in DOMAIN post.trd : /\ post.trd[t].rck = k /\ t \notin placedTrades
                                             /\ post.trd[t].status = "COMPLETE"
                                             /\ (~Has(pre.trd, t) \/ pre.trd[t].status # "COMPLETE")}
           placedNow == \E i \in DOMAIN e.reqs : e.reqs[i].kind = "PLACE" /\ e.reqs[i].r = "ACCEPT" /\ e.reqs[i].rck = k
       IN \* the cool-down after a completed trade starts when a placed trade completes ...
          /\ Ck("C10", "ResetClockRestarts", done # {} => now.lastr = post.clock,
                <<k, "was", was.lastr, "now", now.lastr, "clock", post.clock, "completed", done>>)
          \* ... and is not pushed forward by trades that were never placed (refused orders): that locks the
          \* strategy out of a runner whose orders have all completed.  (A late response for an order that
          \* completed meanwhile re-stamps the clock once, by at most the latency: tolerated.)
          /\ Ck("C10", "ResetClockExact",
                ~(now.lastr # was.lastr /\ done = {} /\ neverPlacedDone # {}),
                <<k, "was", was.lastr, "now", now.lastr, "clock", post.clock, "completed", done, "neverplaced", neverPlacedDone>>)
          /\ Ck("C10", "PlacedClockExact",
                IF placedNow THEN now.lastp = post.clock ELSE now.lastp = was.lastp,
                <<k, was.lastp, now.lastp, post.clock>>)

\* end of an update = the state in which the next update (or the end of the run) finds the system
EndOfUpdate(e) == e.ev \in {"upd", "end"}
P_C10(pre, e) ==
    /\ (e.ev \in {"cb", "exec", "mw", "sweep", "close", "pend"} => RcClocks(pre, e))
    /\ (EndOfUpdate(e) =>
          /\ Ck("C10", "LiveTradesExact", LiveTradesWrong(pre) = {}, LiveTradesWrong(pre))
          /\ Ck("C10", "TradeCompleteIff", TradeStatusWrong(pre) = {}, TradeStatusWrong(pre))
          /\ Ck("C10", "NoTradePending", TradePendingLeft(pre) = {}, TradePendingLeft(pre))
          /\ Ck("C10", "RcListsClean", RcListsClean(pre), ""))
    /\ (e.ev = "cb" =>
          LET RECURSIVE Walk(_, _)
              Walk(s, qs) ==
                 IF qs = <<>> THEN TRUE
                 ELSE LET q == Head(qs)
                          s2 == ReqOne(s, q)
                      IN /\ Ck("C10", "LimitsHold",
                               ~(q.kind = "PLACE" /\ q.r = "ACCEPT" /\ AcceptViolatesLimits(s, q, s2)),
                               <<q.o, q.t>>)
                         /\ Walk(s2, Tail(qs))
          IN Walk(pre, e.reqs))

\* the blotter views as the code exposes them (recorded at the end of every update) against a recount
ViewsOK(pre, e) ==
    "bl" \in DOMAIN e =>
    \A mid \in DOMAIN e.bl :
       LET V == e.bl[mid].v   F == e.bl[mid].f
           mine(sn) == {o \in DOMAIN pre.ord : pre.ord[o].mid = mid /\ pre.ord[o].inbl /\ pre.ord[o].strat = sn}
       IN /\ \A o \in DOMAIN V :
               (Has(pre.ord, o) /\ pre.ord[o].inbl) =>
                 /\ Ck("C15", "ExactlyOnceInEveryView",
                        V[o].orders = 1 /\ V[o].strategy = 1 /\ V[o].stratsel = 1 /\ V[o].client = 1
                        /\ V[o].clientstrat = 1 /\ V[o].trade = 1 /\ V[o].livecnt = (IF pre.ord[o].live THEN 1 ELSE 0),
                        <<o, V[o]>>)
                 /\ Ck("C15", "LookupIdentity", V[o].byid /\ V[o].tradelookup, <<o, V[o]>>)
          \* an order that was refused is in no view
          /\ \A o \in DOMAIN V :
               (Has(pre.ord, o) /\ ~pre.ord[o].inbl) =>
                 Ck("C15", "NotPlacedNotInBlotter", V[o].orders = 0 /\ V[o].strategy = 0 /\ V[o].livecnt = 0, <<o, V[o]>>)
          /\ Ck("C15", "BlotterSize", e.bl[mid].n = Cardinality({o \in DOMAIN pre.ord : pre.ord[o].mid = mid /\ pre.ord[o].inbl}), <<mid, e.bl[mid].n>>)
          /\ \A sn \in DOMAIN F :
               Ck("C15", "FiltersExact",
                  /\ SeqToSet(F[sn].all) = mine(sn)
                  /\ SeqToSet(F[sn].executable) = {o \in mine(sn) : pre.ord[o].status = "EXECUTABLE"}
                  /\ SeqToSet(F[sn].livestatus) = {o \in mine(sn) : pre.ord[o].status \in {"PENDING", "EXECUTABLE", "CANCELLING", "UPDATING", "REPLACING"}}
                  /\ SeqToSet(F[sn].complete) = {o \in mine(sn) : pre.ord[o].status = "COMPLETE"}
                  /\ SeqToSet(F[sn].matched) = {o \in mine(sn) : pre.ord[o].m > 0}
                  /\ SeqToSet(F[sn].notonlymatched) = mine(sn)
                  /\ SeqToSet(F[sn].exec_matched) = {o \in mine(sn) : pre.ord[o].status = "EXECUTABLE" /\ pre.ord[o].m > 0},
                  <<mid, sn, F[sn]>>)

P_C15(pre, e) ==
    LET post == e.st IN
    /\ ViewsOK(post, e)
    /\ (EndOfUpdate(e) =>
          Ck("C15", "LiveListComplete", LiveListIncomplete(pre) = {}, LiveListIncomplete(pre)))
    /\ Ck("C15", "RemovedOnlyAfterComplete", LeftLiveWhileIncomplete(pre, post) = {},
          LeftLiveWhileIncomplete(pre, post))
    /\ Ck("C15", "LiveInBlotter", LiveNotInBlotter(post) = {}, LiveNotInBlotter(post))
    \* the order created by a replace is filed in the views of the client the replaced order was placed for
    /\ (e.ev = "exec" /\ e.a.kind = "REPLACE" =>
          \A o \in DOMAIN e.a.rlab :
             LET rl == e.a.rlab[o] IN
             (Has(pre.ord, o) /\ Has(post.ord, rl) /\ ~Has(pre.ord, rl)) =>
                Ck("C15", "ReplacementFiledForItsClient", post.ord[rl].client = pre.ord[o].client,
                   <<o, rl, pre.ord[o].client, post.ord[rl].client>>))

P_C07(pre, e) ==
    LET post == e.st IN
    /\ Ck("C07", "ExecutedWhenDue", ~ExecNotDue(pre, e), <<e.a>>)
    /\ (e.ev = "pend" =>
          Ck("C07", "NoDuePackageLeft", SurvivingDue(post, e.a.mid) = {}, SurvivingDue(post, e.a.mid)))


-----------------------------------------------------------------------------
(* Layer R, matching engine: the logged result of every placement and of every middleware
   pass must be the result SimMatch computes from the logged inputs (book, traded ladder). *)
Env(e, instr) == [pkgmver |-> e.a.mver, bpe |-> e.a.bpe, fullmatch |-> e.a.fullmatch,
                  pt |-> e.a.book.pt, instr |-> instr]

\* avg (the average matched price to the cent) is compared unless the exact average sits on a
\* rounding tie, where binary floating point decides
EngineDiff(got, exp) ==
    {f \in {"m", "frags", "can", "lap", "void", "piq", "mver"} : got[f] # exp[f]}
    \cup (IF got.avg # exp.avg /\ ~WapTie(exp.frags) THEN {"avg"} ELSE {})

PlaceConforms(pre, e) ==
    LET post == e.st IN
    IF e.a.kind = "PLACE"
    THEN \A o \in SeqToSet(PkgOrders(pre, e.a.orders)) :
           LET b == pre.ord[o] IN
           IF ~(b.selk \in DOMAIN e.a.book.r) \/ e.a.err # "" THEN TRUE
           ELSE IF PlaceAmbiguous(b, e.a.book.r[b.selk], Env(e, TRUE)) THEN TRUE
           ELSE LET r == Place(b, e.a.book, e.a.book.r[b.selk], Env(e, TRUE))
                    d == EngineDiff(post.ord[o], r) \cup (IF post.ord[o].bet # r.ok THEN {"bet"} ELSE {})
                IN IF d = {} THEN TRUE ELSE Drift("place", <<o, d, "expected", [x \in d \ {"bet"} |-> r[x]]>>)
    ELSE IF e.a.kind = "REPLACE"
    THEN \A o \in {x \in SeqToSet(PkgOrders(pre, e.a.orders)) : pre.ord[x].status # "COMPLETE"} :
           LET b == pre.ord[o]
               c == CancelAmount(pre, o)
           IN IF c < 0 \/ ~(b.selk \in DOMAIN e.a.book.r) \/ e.a.err # "" THEN TRUE
              ELSE LET rl == IF Has(e.a.rlab, o) THEN e.a.rlab[o] ELSE "?"
                       rep == NewReplacement(pre, o, rl, b.newp, c, e.a.created)
                       r == Place(rep, e.a.book, e.a.book.r[b.selk], Env(e, FALSE))
                   IN IF r.ok
                      THEN IF ~Has(post.ord, rl) THEN Drift("replace", <<o, "replacement missing">>)
                           ELSE LET d == EngineDiff(post.ord[rl], r)
                                IN IF d = {} THEN TRUE ELSE Drift("replace", <<o, rl, d>>)
                      ELSE IF Has(post.ord, rl) THEN Drift("replace", <<o, "replacement kept although its placement failed">>)
                           ELSE TRUE
    ELSE TRUE

MatchGroups(pre, mid, iso) == GroupsOf(pre.ord, mid, iso)

TouchedByRemoval(pre, e, o) ==
    e.a.newly_removed # <<>> /\
    (\/ \E i \in DOMAIN e.a.newly_removed : e.a.newly_removed[i][1] = pre.ord[o].selk
     \/ pre.ord[o].frags # <<>> \/ pre.ord[o].type = "MARKET_ON_CLOSE")

MwConforms(pre, e) ==
    LET post == e.st
        mid == e.a.mid
        tr == [sk \in DOMAIN e.a.traded |-> LadderFn(e.a.traded[sk])]
    IN IF ~e.a.active THEN TRUE
       ELSE \A g \in MatchGroups(pre, mid, e.a.iso) :
              LET labs == SortOrders(pre.ord, g)
                  res == FoldPassive(pre.ord, {}, labs, tr, e.a.book, e.a.book.pt, e.a.minbsp)
                  \* fractions of a penny (odd reported volumes) make the runner's pass irreproducible in pence
                  halfpenny(sk) == \E x \in g : pre.ord[x].selk = sk /\
                                      (x \in SeqToSet(e.a.piqhalf) \/ (sk \in DOMAIN tr /\ TradedTie(pre.ord[x], tr[sk])))
              IN \A o \in g :
                   IF TouchedByRemoval(pre, e, o) \/ ~(pre.ord[o].selk \in DOMAIN e.a.book.r)
                      \/ halfpenny(pre.ord[o].selk)
                      \* a recorded starting price that is not a whole number of cents: the SP fill is outside pence arithmetic
                      \/ (~pre.ord[o].bspd /\ e.a.book.bsprec /\ TakesSp(pre.ord[o]) /\ Inexact(e.a.book.r[pre.ord[o].selk], "spx"))
                      \/ e.a.book.r[pre.ord[o].selk].status # "ACTIVE"
                      \/ (pre.ord[o].side = "LAY" /\ ~pre.ord[o].bspd /\ e.a.book.bsprec /\ TakesSp(pre.ord[o])
                          /\ SpTie(pre.ord[o], e.a.book.r[pre.ord[o].selk].sp))
                   THEN TRUE
                   ELSE LET d == EngineDiff(post.ord[o], res[1][o])
                                 \cup (IF post.ord[o].bspd # res[1][o].bspd THEN {"bspd"} ELSE {})
                        IN IF d = {} THEN TRUE
                           ELSE Drift("match", <<o, d, "expected", [x \in d |-> res[1][o][x]]>>)

\* RunnerAnalytics._calculate_traded agrees with the ledger rebuilt from the raw lines
TradedConforms(e) ==
    \A sk \in DOMAIN e.a.rawdelta :
       IF ~(sk \in DOMAIN e.a.traded) THEN (IF e.a.rawdelta[sk] = <<>> THEN TRUE ELSE Drift("traded", <<sk, "missing">>))
       ELSE IF e.a.book.r[sk].status # "ACTIVE" THEN TRUE
       ELSE IF LadderFn(e.a.traded[sk]) = LadderFn(e.a.rawdelta[sk]) THEN TRUE
            ELSE Drift("traded", <<sk, e.a.traded[sk], e.a.rawdelta[sk]>>)

-----------------------------------------------------------------------------
(* C05 *)
RealFrags(fr) == SelectSeq(fr, LAMBDA f : f[1] >= 0)      \* without the force-matched remainder
P_C05(pre, e) ==
    LET post == e.st IN
    /\ (e.ev = "exec" /\ e.a.kind = "PLACE" /\ e.a.err = "" =>
          \A o \in SeqToSet(PkgOrders(pre, e.a.orders)) :
             LET b == pre.ord[o]  a == post.ord[o]
                 nf == RealFrags(NewFrags(b.frags, a.frags))
                 fok == b.tif = "FOK"
             IN (b.type = "LIMIT" /\ b.selk \in DOMAIN e.a.book.r) =>
                 /\ Ck("C05", "FillWithinLimit", FillWithinLimit(b, nf, fok), <<o, nf, b.price, b.side>>)
                 /\ Ck("C05", "LevelNotOverdrawn", LevelNotOverdrawn(b, nf, e.a.book.r[b.selk]), <<o, nf>>)
                 /\ (fok => Ck("C05", "FokAllOrNothing", FokAllOrNothing(b, a), <<o, a.m, a.can, Rem(a)>>))
                 /\ ((~e.a.bpe /\ e.a.book.status = "OPEN" /\ e.a.book.r[b.selk].status = "ACTIVE"
                      /\ ~(e.a.mver > 0 /\ e.a.mver # e.a.book.version)
                      /\ ~(fok /\ b.minfill > b.size)) =>
                        Ck("C05", "BpeLapse", BpeLapses(b, e.a.book.r[b.selk], a), <<o>>)))
    /\ (e.ev = "exec" /\ e.a.kind = "REPLACE" /\ e.a.err = "" =>
          \A o \in DOMAIN e.a.rlab :
             LET rl == e.a.rlab[o] IN
             (Has(post.ord, rl) /\ post.ord[rl].selk \in DOMAIN e.a.book.r) =>
                LET a == post.ord[rl]  nf == RealFrags(a.frags) IN
                /\ Ck("C05", "FillWithinLimit", FillWithinLimit(a, nf, FALSE), <<rl, nf>>)
                /\ Ck("C05", "LevelNotOverdrawn", LevelNotOverdrawn(a, nf, e.a.book.r[a.selk]), <<rl, nf>>))
    /\ (e.ev = "mw" =>
          \A o \in DOMAIN pre.ord :
             (pre.ord[o].type = "LIMIT" /\ Has(post.ord, o)) =>
               LET nf == NewFrags(pre.ord[o].frags, post.ord[o].frags)
                   sp == pre.ord[o].pers = "MARKET_ON_CLOSE" /\ post.ord[o].bspd /\ ~pre.ord[o].bspd
               IN (Len(post.ord[o].frags) > Len(pre.ord[o].frags) /\ ~sp) =>
                    Ck("C05", "FillWithinLimit", FillWithinLimit(pre.ord[o], nf, FALSE), <<o, nf>>))
    \* a fill-or-kill order never rests: once its placement has been answered nothing remains
    /\ \A o \in DOMAIN post.ord :
          (post.ord[o].tif = "FOK" /\ post.ord[o].type = "LIMIT" /\ post.ord[o].status \in MatchSt) =>
              Ck("C05", "FokNeverRests", Rem(post.ord[o]) = 0, <<o, post.ord[o].status>>)

-----------------------------------------------------------------------------
(* C06 *)
SumOver(T, F(_)) ==
    LET RECURSIVE go(_)
        go(U) == IF U = {} THEN 0 ELSE LET x == CHOOSE y \in U : TRUE IN F(x) + go(U \ {x})
    IN go(T)

\* the volume queued ahead of an order "at its price when it arrived": the size shown at that price on
\* the side the order joins, in the book it was placed against - recomputed here from the logged book
QueuedAhead(o, rb) == SizeAt(IF o.side = "BACK" THEN rb.atl ELSE rb.atb, o.price)
JoinsQueue(o, rb) ==   \* priced behind the best price of the side it could take from: nothing matches on arrival
    LET same == IF o.side = "BACK" THEN rb.atb ELSE rb.atl
    IN same = <<>> \/ (IF o.side = "BACK" THEN o.price > same[1][1] ELSE o.price < same[1][1])
P_C06X(pre, e) ==
    (e.ev = "exec" /\ e.a.kind \in {"PLACE", "REPLACE"} /\ e.a.err = "" /\ ~e.a.fullmatch) =>
    LET post == e.st
        placed == IF e.a.kind = "PLACE" THEN SeqToSet(PkgOrders(pre, e.a.orders))
                  ELSE {e.a.rlab[o] : o \in DOMAIN e.a.rlab}
    IN \A o \in placed :
         (Has(post.ord, o) /\ post.ord[o].bet /\ post.ord[o].type = "LIMIT" /\ post.ord[o].selk \in DOMAIN e.a.book.r
          /\ post.ord[o].tif # "FOK" /\ post.ord[o].m = 0 /\ Rem(post.ord[o]) > 0
          /\ JoinsQueue(post.ord[o], e.a.book.r[post.ord[o].selk])) =>
            Ck("C06", "QueueAtArrival", post.ord[o].piq = QueuedAhead(post.ord[o], e.a.book.r[post.ord[o].selk]),
               <<o, post.ord[o].side, post.ord[o].price, post.ord[o].piq, "queued", QueuedAhead(post.ord[o], e.a.book.r[post.ord[o].selk])>>)

\* C05, the resting case ("an order never takes more from a price level than was available there ... all later trade
\* sequences for the resting case"): what a resting limit order is filled out of one update never exceeds what traded
\* in that update at prices at or through its limit (half the reported amount; ledger rebuilt from the raw lines)
P_C05R(pre, e) ==
    e.ev = "mw" /\ e.a.active =>
    LET post == e.st
        delta(sk) == IF sk \in DOMAIN e.a.rawdelta THEN LadderFn(e.a.rawdelta[sk]) ELSE <<>>
    IN \A o \in DOMAIN pre.ord :
         (/\ pre.ord[o].mid = e.a.mid /\ pre.ord[o].inbl /\ pre.ord[o].type = "LIMIT" /\ Has(post.ord, o)
          /\ post.ord[o].void = pre.ord[o].void /\ post.ord[o].lap = pre.ord[o].lap
          /\ ~(post.ord[o].bspd /\ ~pre.ord[o].bspd /\ TakesSp(pre.ord[o]))
          /\ post.ord[o].m > pre.ord[o].m) =>
            LET d == delta(pre.ord[o].selk)
                elig2 == SumOver({p \in DOMAIN d : Eligible(pre.ord[o], p)}, LAMBDA p : d[p])
            IN Ck("C05", "RestingWithinTraded",
                  2 * (post.ord[o].m - pre.ord[o].m) <= elig2 + OddLevels(pre.ord[o], d),
                  <<o, post.ord[o].m - pre.ord[o].m, "eligible2", elig2, d>>)

P_C06(pre, e) ==
    e.ev = "mw" /\ e.a.active =>
    LET post == e.st
        mid == e.a.mid
        delta(sk) == IF sk \in DOMAIN e.a.rawdelta THEN LadderFn(e.a.rawdelta[sk]) ELSE <<>>
        plain(o) == \* a resting limit order matched passively in this pass (no SP, no lapse, no void)
            /\ pre.ord[o].type = "LIMIT" /\ Has(post.ord, o)
            /\ post.ord[o].void = pre.ord[o].void /\ post.ord[o].lap = pre.ord[o].lap
            /\ ~(post.ord[o].bspd /\ ~pre.ord[o].bspd /\ TakesSp(pre.ord[o]))
        fill(o) == post.ord[o].m - pre.ord[o].m
        eligvol2(o, d) == SumOver({p \in DOMAIN d : Eligible(pre.ord[o], p)}, LAMBDA p : d[p])   \* twice the eligible volume
    IN
    /\ \A o \in DOMAIN pre.ord :   \* only resting (acknowledged) orders are filled passively
          (pre.ord[o].mid = mid /\ Has(post.ord, o) /\ ~(pre.ord[o].status \in MatchSt)) =>
             Ck("C06", "OnlyRestingFilled", post.ord[o].m <= pre.ord[o].m, <<o, pre.ord[o].status>>)
    /\ \A g \in MatchGroups(pre, mid, e.a.iso) :
        \A sk \in {pre.ord[o].selk : o \in g} :
          LET Rs == {o \in g : pre.ord[o].selk = sk /\ plain(o)}
              d == delta(sk)
              filled == {o \in Rs : fill(o) > 0}
          IN /\ \A o \in Rs : Ck("C06", "AtOrThroughLimit",
                                  fill(o) = 0 \/ eligvol2(o, d) > 0, <<o, fill(o)>>)
             \* no overfill: the group never takes more than half the eligible traded volume
             \* (each fill is rounded to the penny: an odd reported amount may be rounded up by half a penny per level)
             /\ Ck("C06", "NoOverfill",
                   2 * SumOver(Rs, fill)
                     <= SumOver({p \in DOMAIN d : \E o \in filled : Eligible(pre.ord[o], p)}, LAMBDA p : d[p])
                        + SumOver(filled, LAMBDA o : OddLevels(pre.ord[o], d)),
                   <<sk, [o \in filled |-> fill(o)], d>>)
             /\ \A o0 \in filled :     \* per threshold and side
                   LET same == {o \in Rs : pre.ord[o].side = pre.ord[o0].side
                                           /\ Eligible(pre.ord[o0], pre.ord[o].price)}   \* priced at least as well as o0
                   IN Ck("C06", "NoOverfillThreshold",
                         2 * SumOver({o \in same : TRUE}, fill) <= eligvol2(o0, d) + SumOver(same, LAMBDA o : OddLevels(pre.ord[o], d)), <<sk, o0>>)
             \* a lone resting order gets exactly the volume beyond its queue position
             /\ (Cardinality({o \in g : pre.ord[o].selk = sk}) = 1 =>
                   \A o \in Rs :
                      LET want2 == eligvol2(o, d) - 2 * pre.ord[o].piq
                          exact == Min(Rem(pre.ord[o]), IF want2 > 0 THEN RoundDiv(want2, 2) ELSE 0)
                          tol == OddLevels(pre.ord[o], d) + (IF o \in SeqToSet(e.a.piqhalf) THEN 1 ELSE 0)
                      IN Ck("C06", "LoneExact",
                            fill(o) >= exact - tol /\ fill(o) <= exact + tol,
                            <<o, fill(o), "eligible2", eligvol2(o, d), "piq", pre.ord[o].piq, "rem", Rem(pre.ord[o])>>))
             \* better priced orders of the same side are served first
             /\ \A o1 \in filled : \A o2 \in Rs :
                   (pre.ord[o2].side = pre.ord[o1].side /\ o2 # o1 /\
                    (IF pre.ord[o1].side = "LAY" THEN pre.ord[o2].price > pre.ord[o1].price
                     ELSE pre.ord[o2].price < pre.ord[o1].price)) =>
                      \* (an odd reported amount leaves half a penny behind the better order's rounded fill: the next
                      \*  order may pick up that crumb, one penny per odd level)
                      Ck("C06", "BetterPriceFirst", Rem(post.ord[o2]) = 0 \/ fill(o1) <= OddLevels(pre.ord[o1], d), <<o1, o2, fill(o1), d>>)

-----------------------------------------------------------------------------
(* C09 *)
P_C09(pre, e) ==
    LET post == e.st IN
    /\ Ck("C09", "VoidOnlyOnRemoval", VoidOnlyOnRemoval(pre, e), "")
    \* the average matched price an order reports (and is settled on) is the average of its - possibly reduced - fills,
    \* also after further fills arrive
    /\ \A o \in DOMAIN post.ord :
          (post.ord[o].type = "LIMIT" /\ post.ord[o].frags # <<>> /\ SumS(post.ord[o].frags) = post.ord[o].m /\ ~WapTie(post.ord[o].frags)) =>
             Ck("C09", "AverageFollowsFills", post.ord[o].avg = Wap(post.ord[o].frags)[2],
                <<o, post.ord[o].avg, Wap(post.ord[o].frags)[2], post.ord[o].frags>>)
    /\ (e.ev = "mw" =>
         /\ \A i \in DOMAIN e.a.newly_removed :
              LET sk == e.a.newly_removed[i][1]
                  af == e.a.newly_removed[i][2]
                  single == Len(e.a.newly_removed) = 1
              IN /\ \A o \in DOMAIN pre.ord :
                      (pre.ord[o].mid = e.a.mid /\ pre.ord[o].inbl /\ pre.ord[o].selk = sk /\ Has(post.ord, o)) =>
                         Ck("C09", "VoidedInFull",
                            post.ord[o].m = 0 /\ post.ord[o].frags = <<>> /\ Rem(post.ord[o]) = 0
                              /\ post.ord[o].void = post.ord[o].size,
                            <<o, e.a.mid, sk>>)
                 /\ (single => \A o \in DOMAIN pre.ord :
                      (pre.ord[o].mid = e.a.mid /\ pre.ord[o].inbl /\ pre.ord[o].selk # sk /\ Has(post.ord, o)
                       /\ ~(pre.ord[o].type = "MARKET_ON_CLOSE" /\ pre.ord[o].side = "LAY")
                       /\ Len(post.ord[o].frags) >= Len(pre.ord[o].frags)) =>
                         \A j \in DOMAIN pre.ord[o].frags :
                            Ck("C09", "ReducedOnce",
                               IF af >= 250
                               THEN \/ ReducedPriceOk(post.ord[o].frags[j][2], pre.ord[o].frags[j][2], af)
                                    \* a recorded factor with more than two decimals: one more cent of tolerance
                                    \/ (sk \in DOMAIN e.a.book.r /\ Inexact(e.a.book.r[sk], "afx")
                                        /\ \E d \in {-1, 1} : ReducedPriceOk(post.ord[o].frags[j][2] + d, pre.ord[o].frags[j][2], af))
                               ELSE post.ord[o].frags[j][2] = pre.ord[o].frags[j][2],
                               <<o, j, pre.ord[o].frags[j][2], post.ord[o].frags[j][2], af>>))
         \* market-on-close lay liabilities on the other runners are scaled by the exchange's non-runner formula,
         \* whatever the size of the factor: win markets 1 - af / (100 - the runner's own factor), place markets 1 - af / 100
         /\ (Len(e.a.newly_removed) = 1 /\ e.a.mtype \in {"WIN", "PLACE", "OTHER_PLACE"} =>
               LET sk == e.a.newly_removed[1][1]
                   af == IF e.a.newly_removed[1][2] < 0 THEN 0 ELSE e.a.newly_removed[1][2]
               IN \A o \in DOMAIN pre.ord :
                    (pre.ord[o].mid = e.a.mid /\ pre.ord[o].inbl /\ pre.ord[o].selk # sk /\ Has(post.ord, o)
                     /\ pre.ord[o].type = "MARKET_ON_CLOSE" /\ pre.ord[o].side = "LAY" /\ pre.ord[o].selk \in DOMAIN e.a.book.r) =>
                       LET raf0 == e.a.book.r[pre.ord[o].selk].af
                           raf == IF raf0 < 0 THEN 0 ELSE raf0
                           den == IF e.a.mtype = "WIN" THEN 10000 - raf ELSE 10000
                       IN Ck("C09", "MocLayLiabilityScaled",
                             den > 0 /\ Abs(post.ord[o].size * den - pre.ord[o].size * (den - af)) <= den,
                             <<o, "liability", pre.ord[o].size, post.ord[o].size, "factor", af, "own factor", raf, e.a.mtype>>))
         \* no reduction without a new removal in this market
         /\ (e.a.newly_removed = <<>> =>
               \A o \in DOMAIN pre.ord :
                  (Has(post.ord, o) /\ Len(post.ord[o].frags) >= Len(pre.ord[o].frags)) =>
                     Ck("C09", "NoSpuriousReduction",
                        SubSeq(post.ord[o].frags, 1, Len(pre.ord[o].frags)) = pre.ord[o].frags \/ post.ord[o].void > pre.ord[o].void, o)))
    \* whenever a strategy is called: every order on a removed runner is void and complete
    /\ (e.ev = "cb" =>
          \A o \in DOMAIN post.ord :
             (post.ord[o].inbl /\ Has(post.mkt, post.ord[o].mid)
              /\ post.ord[o].selk \in SeqToSet(post.mkt[post.ord[o].mid].removed)
              \* an order placed after the removal is still awaiting its (failing) placement
              /\ ~(post.ord[o].status = "PENDING" /\ post.ord[o].void = 0 /\ post.ord[o].m = 0)) =>
                 Ck("C09", "RemovedRunnerOrdersComplete",
                    post.ord[o].cplt /\ post.ord[o].m = 0 /\ Rem(post.ord[o]) = 0, <<o, post.ord[o].status, post.ord[o].type>>))

-----------------------------------------------------------------------------
(* C07, timestamps *)
P_C07T(pre, e) ==
    LET post == e.st IN
    /\ (e.ev = "exec" =>
          \* the dates the simulated exchange reports (placed / cancelled) are the time of this execution
          /\ Ck("C07", "ResponseDatedAtExecution", \A i \in DOMAIN e.a.rdates : e.a.rdates[i][3] = post.clock,
                {e.a.rdates[i] : i \in {j \in DOMAIN e.a.rdates : e.a.rdates[j][3] # post.clock}})
          /\ Ck("C07", "ExecutedAgainstPrevBook",
                Has(pre.mkt, e.a.mid) /\ e.a.book.pt = pre.mkt[e.a.mid].pt /\ e.a.book.pt <= pre.clock, <<e.a.book.pt, pre.clock>>)
          /\ Ck("C07", "DelayCharged",
                e.a.delay = ExpectedDelay(e.a.kind, e.a.betdelay, e.a.lat), <<e.a.kind, e.a.delay, e.a.betdelay>>))
    \* a fill is stamped with the publish time of the book it was matched against, which is the book the order's
    \* market shows at that moment: the state prevailing before the executing update for a fill on execution, the
    \* update's own book for a fill while resting - never a book the clock has not reached.  (When the request was
    \* sent while another market of the file / event was being processed, that book can be older than the request.)
    /\ \A o \in DOMAIN post.ord :
          LET a == post.ord[o]
              n0 == IF Has(pre.ord, o) THEN Len(pre.ord[o].frags) ELSE 0
          IN (Len(a.frags) > n0 /\ Has(post.mkt, a.mid)) =>
                Ck("C07", "FillStampedWithItsBook",
                   \A j \in (n0 + 1)..Len(a.frags) :
                      a.frags[j][1] < 0 \/ (a.frags[j][1] = post.mkt[a.mid].pt /\ a.frags[j][1] <= post.clock),
                   <<o, a.frags, post.mkt[a.mid].pt, post.clock>>)
    /\ \A o \in DOMAIN post.ord :
          LET a == post.ord[o] IN
          /\ Ck("C07", "NoTimestampBeforePossible",
                /\ (a.placed >= 0 => a.placed >= a.created)
                \* (no timestamp lies in the future: beyond the latest time the run has reached - in a file carrying
                \*  several markets the clock steps back to the publish time of each re-delivered book, e.hw is its
                \*  high-water mark)
                /\ a.supd <= e.hw /\ a.created <= e.hw
                \* every timestamp is the simulated time at which the thing happened (and it never changes afterwards
                \* unless the thing happens again): creation, acknowledgement, status change carry the clock of the step
                \* in which they appear.  (With one market per file the clock only moves forward, so each follows the
                \* creation time; the per-step form also holds where the clock steps back.)
                \* (the order that replaces another one is dated with the replace request it results from)
                /\ (~Has(pre.ord, o) => /\ a.created = (IF e.ev = "exec" THEN e.a.created ELSE post.clock)
                                        /\ a.supd = post.clock /\ (a.placed >= 0 => a.placed = post.clock))
                /\ (Has(pre.ord, o) => /\ a.created = pre.ord[o].created
                                       /\ (a.supd # pre.ord[o].supd => a.supd = post.clock)
                                       /\ (a.placed # pre.ord[o].placed => a.placed = post.clock)),
                <<o, a.created, a.placed, a.supd, post.clock, e.hw, IF Has(pre.ord, o) THEN <<pre.ord[o].created, pre.ord[o].placed, pre.ord[o].supd>> ELSE <<>>>>)
          \* a pending order has no fills; an order whose request is in flight stays fillable
          /\ Ck("C07", "PendingHasNoFills", a.status = "PENDING" => a.m = 0 /\ a.frags = <<>>, o)
    \* ... as before: a lone resting order with a cancel / update / replace in flight is filled by exactly what a resting
    \* order would get out of this update (the request has not reached the exchange yet)
    /\ ((e.ev = "mw" /\ e.a.active) =>
          \A g \in MatchGroups(pre, e.a.mid, e.a.iso) : \A o \in g :
             LET b == pre.ord[o]
                 sk == b.selk
                 d == IF sk \in DOMAIN e.a.rawdelta THEN LadderFn(e.a.rawdelta[sk]) ELSE <<>>
                 elig2 == SumOver({p \in DOMAIN d : Eligible(b, p)}, LAMBDA p : d[p])
                 want2 == elig2 - 2 * b.piq
                 exact == Min(Rem(b), IF want2 > 0 THEN RoundDiv(want2, 2) ELSE 0)
                 tol == OddLevels(b, d) + (IF o \in SeqToSet(e.a.piqhalf) THEN 1 ELSE 0)
             IN (/\ b.status \in {"CANCELLING", "UPDATING", "REPLACING"} /\ b.type = "LIMIT" /\ Has(post.ord, o)
                 /\ Cardinality({x \in g : pre.ord[x].selk = sk}) = 1
                 /\ sk \in DOMAIN e.a.book.r /\ e.a.book.r[sk].status = "ACTIVE"
                 /\ post.ord[o].void = b.void /\ post.ord[o].lap = b.lap
                 /\ ~(post.ord[o].bspd /\ ~b.bspd /\ TakesSp(b))) =>
                   Ck("C07", "InFlightStaysFillable",
                      post.ord[o].m - b.m >= exact - tol /\ post.ord[o].m - b.m <= exact + tol,
                      <<o, b.status, "filled", post.ord[o].m - b.m, "expected", exact>>))
    /\ (e.ev = "cb" => \A i \in DOMAIN e.pkgs :
          Ck("C07", "DelayCharged",
             e.pkgs[i].delay = ExpectedDelay(e.pkgs[i].kind, e.pkgs[i].betdelay, e.lat)
             /\ (Has(pre.mkt, e.pkgs[i].mid) => e.pkgs[i].betdelay = pre.mkt[e.pkgs[i].mid].betdelay),
             <<e.pkgs[i].kind, e.pkgs[i].delay, e.pkgs[i].betdelay>>))
    \* "after the request was made": a package handed over in this step is dated with the clock of this step (the age
    \* the due-time test measures starts when the request was made, whichever market it is for)
    /\ (e.ev = "cb" => \A i \in DOMAIN e.pkgs : \A j \in DOMAIN post.hq :
          (post.hq[j].orders = e.pkgs[i].orders /\ post.hq[j].kind = e.pkgs[i].kind /\ ~post.hq[j].done) =>
             Ck("C07", "RequestDatedNow", post.hq[j].created = post.clock, <<e.pkgs[i].kind, e.pkgs[i].orders, post.hq[j].created, post.clock>>))
    /\ (e.ev = "upd" => Ck("C07", "ClockIsPublishTime", post.clock = e.a.pt, <<post.clock, e.a.pt>>))
    \* all time seen by strategies is the publish time of the update being processed (of the book they are shown)
    /\ (e.ev = "cb" => Ck("C07", "ClockInCallback", post.clock = e.a.pt, <<e.a.mid, e.a.phase, post.clock, e.a.pt>>))


-----------------------------------------------------------------------------
(* C08 settlement (evaluated on the step that closes a market) *)
SameFills(a, b) == Len(a) = Len(b) /\ \A i \in DOMAIN a : a[i][2] = b[i][2] /\ a[i][3] = b[i][3]
P_C08(pre, e) ==
    e.ev = "close" =>
    LET post == e.st
        SS == e.a.settle
        inscope(o) ==   \* each-way dead heats and dead heats in multi-winner markets are outside the statement
            ~(SS[o].ndh > 1 /\ (SS[o].mtype = "EACH_WAY" \/ e.a.nwin # 1))
    IN
    /\ \A o \in DOMAIN SS :
         Has(post.ord, o) =>
         LET x == SS[o]  ord == post.ord[o]
             \* a market-on-close lay re-sized after a non-runner keeps its fragment but not its size
             fr == IF STL!SumStake(ord.frags) = ord.m THEN ord.frags ELSE <<<<0, ord.avg, ord.m>>>>
             r == STL!Profit(ord.side, fr, x.mtype, x.rstatus, x.ndh, x.ewd, x.lineorder, x.line, x.lineresult)
         IN /\ (inscope(o) => Ck("C08", "ProfitRule", STL!Agrees(x.profit, r, (IF x.mtype = "EACH_WAY" THEN ord.m ELSE ord.m \div 2) + 100),
                                 <<o, x.profit, r, ord.side, ord.frags, x.rstatus, x.mtype, x.ndh, x.ewd>>))
            /\ Ck("C08", "ZeroIfUnmatchedOrRemoved",
                  (ord.m = 0 \/ (x.rstatus = "REMOVED" /\ ~x.lineorder)) => x.profit = 0, <<o, x.profit>>)
            \* the number of dead-heat winners an order is settled with comes from the closing book: the count of
            \* WINNER runners when it exceeds the market's number of winners (whether or not the tied runners carry orders)
            /\ Ck("C08", "DeadHeatCounted",
                  LET nW == Cardinality({rr \in DOMAIN e.a.rstat : e.a.rstat[rr] = "WINNER"})
                  IN (ord.inbl /\ e.a.nwin > 0) => x.ndh = (IF nW > e.a.nwin THEN nW ELSE 1),
                  <<o, x.ndh, e.a.nwin, e.a.rstat>>)
            /\ Ck("C08", "OrdersGetResults",
                  (ord.inbl /\ ord.selk \in DOMAIN e.a.rstat) => x.rstatus = e.a.rstat[ord.selk], <<o, x.rstatus>>)
    /\ \A a \in DOMAIN SS : \A b \in DOMAIN SS :
         (Has(post.ord, a) /\ Has(post.ord, b) /\ post.ord[a].side = "BACK" /\ post.ord[b].side = "LAY"
          /\ post.ord[a].selk = post.ord[b].selk /\ post.ord[a].frags # <<>>
          /\ post.ord[a].type = post.ord[b].type /\ SS[a].lineorder = SS[b].lineorder
          /\ SameFills(post.ord[a].frags, post.ord[b].frags)) =>
             Ck("C08", "SideSymmetry", SS[a].profit = -SS[b].profit, <<a, b, SS[a].profit, SS[b].profit, SS[a].lineresult, SS[a].line>>)
    /\ \A i \in DOMAIN e.a.cleared :
         LET c == e.a.cleared[i]
             mine == {o \in DOMAIN SS : SS[o].client = c.client /\ Has(post.ord, o) /\ post.ord[o].m > 0}
             total == SumOver(mine, LAMBDA o : SS[o].profit)
         IN /\ Ck("C08", "ClearedIsSum", STL!Abs(c.profit - total) <= 1 /\ c.betCount = Cardinality(mine), <<c, total, mine>>)
            /\ Ck("C08", "CommissionOnlyOnNetWin", STL!CommissionOk(c.commission, c.profit, e.a.rates[c.client]), <<c>>)


-----------------------------------------------------------------------------
(* C20 market closure (evaluated on the step that processes a CLOSED book) *)
SeqCount(q, x) == Cardinality({i \in DOMAIN q : q[i] = x})
P_C20(pre, e) ==
    LET post == e.st IN
    /\ (e.ev = "close" =>
          /\ Ck("C20", "CallbackOncePerClosingUpdate",
                /\ \A i \in DOMAIN e.a.subscribed : SeqCount(e.a.closed_calls, <<e.a.subscribed[i], e.a.mid>>) = 1
                /\ Len(e.a.closed_calls) = Len(e.a.subscribed),
                <<e.a.mid, e.a.closed_calls, e.a.subscribed, "known_before", e.a.known_before>>)
          /\ Ck("C20", "ClosedFlag", Has(post.mkt, e.a.mid) /\ post.mkt[e.a.mid].closed /\ post.mkt[e.a.mid].status = "CLOSED",
                <<e.a.mid>>)
          /\ Ck("C20", "ClearedReported",
                /\ Len(e.a.cleared) = Cardinality(DOMAIN e.a.rates)                \* one summary per client
                /\ \A i \in DOMAIN e.a.cleared : e.a.cleared[i].marketId = e.a.mid
                /\ LET n == Cardinality({o \in DOMAIN post.ord : post.ord[o].mid = e.a.mid /\ post.ord[o].inbl})
                   IN IF n > 0 THEN Len(e.a.cleared_meta) = 1 /\ Len(e.a.cleared_meta[1]) = n
                      ELSE e.a.cleared_meta = <<>>,
                <<e.a.mid, e.a.cleared, e.a.cleared_meta>>)
          /\ Ck("C20", "ClosedEventLogged", e.a.nclosed_events = 1, e.a.nclosed_events)
          /\ Ck("C20", "OrdersGetResults",
                \A o \in DOMAIN e.a.settle :
                   (Has(post.ord, o) /\ post.ord[o].inbl /\ post.ord[o].selk \in DOMAIN e.a.rstat) =>
                       (e.a.settle[o].rstatus = e.a.rstat[post.ord[o].selk] /\ e.a.settle[o].mtype = e.a.mtype),
                e.a.mid)
          \* ... and the market's settlement terms: the dead-heat count of the closing book
          /\ Ck("C20", "SettlementTermsFromClosingBook",
                LET nW == Cardinality({rr \in DOMAIN e.a.rstat : e.a.rstat[rr] = "WINNER"})
                IN \A o \in DOMAIN e.a.settle :
                     (Has(post.ord, o) /\ post.ord[o].inbl /\ e.a.nwin > 0) => e.a.settle[o].ndh = (IF nW > e.a.nwin THEN nW ELSE 1),
                <<e.a.mid, e.a.nwin, e.a.rstat>>)
          /\ Ck("C20", "StateReleased",
                /\ \A k \in DOMAIN post.rc : post.rc[k].mid # e.a.mid
                /\ ~e.a.mw_has,
                <<e.a.mid, e.a.mw_has>>))
    \* data for a closed market arrives again: the market is re-opened
    /\ (e.ev = "mw" /\ Has(pre.mkt, e.a.mid) /\ pre.mkt[e.a.mid].closed =>
          Ck("C20", "ReopenResetsFlags", ~post.mkt[e.a.mid].closed /\ e.a.ncleared_flags = 0, e.a.mid))
    \* every CLOSED book of the input is processed as a closure
    /\ (e.ev = "upd" /\ e.a.status = "CLOSED" =>
          Ck("C20", "ClosedBookProcessed", e.a.will_close, <<e.a.mid, e.a.pt>>))


-----------------------------------------------------------------------------
(* C01 exposure limits (decision points and end of every update) *)
StratSelOrders(s, strat, mid, selk) ==
    {k \in DOMAIN s.ord : s.ord[k].strat = strat /\ s.ord[k].mid = mid /\ s.ord[k].selk = selk /\ s.ord[k].inbl}
PosOf(s, strat, mid, selk) == [k \in StratSelOrders(s, strat, mid, selk) |-> s.ord[k]]
BySel(s, strat, mid) ==
    [sk \in {s.ord[k].selk : k \in {x \in DOMAIN s.ord : s.ord[x].strat = strat /\ s.ord[x].mid = mid /\ s.ord[x].inbl}} |->
        PosOf(s, strat, mid, sk)]
\* the request's order, counted in full as an acknowledged unmatched order at the price it will rest at
AsNew(s, q) ==
    IF q.kind = "PLACE"
    THEN [NewOrderRec(s, q) EXCEPT !.status = "EXECUTABLE"]
    ELSE LET o == s.ord[q.o] IN
         [o EXCEPT !.status = "EXECUTABLE", !.cplt = FALSE, !.price = q.price, !.size = Rem(o),
                   !.m = 0, !.avg = 0, !.can = 0, !.lap = 0, !.void = 0, !.frags = <<>>]
\* position after the request: for a replace the original keeps its matched part, its remainder moves
WithNew(s, q) ==
    LET selk == IF q.kind = "PLACE" THEN q.selk ELSE s.ord[q.o].selk
        strat == IF q.kind = "PLACE" THEN q.strat ELSE s.ord[q.o].strat
        base == PosOf(s, strat, q.mid, selk)
        base2 == IF q.kind = "REPLACE"
                 THEN [base EXCEPT ![q.o] = [base[q.o] EXCEPT !.can = @ + Rem(base[q.o]), !.cplt = TRUE, !.status = "COMPLETE"]]
                 ELSE base
    IN [k \in DOMAIN base2 \cup {"#new"} |-> IF k = "#new" THEN AsNew(s, q) ELSE base2[k]]

SentWithinLimits(s, q) ==
    LET new == AsNew(s, q)
        p2 == WithNew(s, q)
        n == Cardinality(DOMAIN p2)
        tol == (n + 1) * 100
        selk == new.selk
        strat == new.strat
        others == BySel(s, strat, q.mid)
        bysel2 == [sk \in DOMAIN others \cup {selk} |-> IF sk = selk THEN p2 ELSE others[sk]]
        sideLoss == IF new.side = "BACK" THEN -EXP!BruteLose(p2) ELSE -EXP!BruteWin(p2)
    IN /\ (q.maxorder >= 0 => EXP!OrderExposure(new, new.price) <= q.maxorder * 100 + 100)
       /\ (q.maxsel >= 0 => sideLoss <= q.maxsel * 100 + tol)
       /\ (q.maxmkt >= 0 /\ Has(s.mkt, q.mid) =>
             -EXP!MarketBrute(bysel2, s.mkt[q.mid].nactive, s.mkt[q.mid].nwin) <= q.maxmkt * 100 + tol * 4)

P_C01(pre, e) ==
    /\ (e.ev = "cb" =>
          LET RECURSIVE Walk(_, _)
              Walk(s, qs) ==
                 IF qs = <<>> THEN TRUE
                 ELSE LET q == Head(qs)
                      IN /\ ((q.r = "ACCEPT" /\ ~q.force /\ q.kind \in {"PLACE", "REPLACE"}
                              /\ (q.kind = "REPLACE" => Has(s.ord, q.o)))
                             => Ck("C01", "SentOnlyIfWithin", SentWithinLimits(s, q),
                                   <<q.kind, q.o, q.maxorder, q.maxsel, q.maxmkt>>))
                         \* a refused new order is marked as a violation and stays out of the blotter
                         /\ ((q.r = "REFUSE" /\ q.kind = "PLACE" /\ Has(ReqOne(s, q).ord, q.o) /\ ~(Has(s.ord, q.o) /\ s.ord[q.o].inbl))
                             => Ck("C01", "RefusedIsViolation",
                                   "after" \in DOMAIN q /\ q.after.status = "VIOLATION" /\ ~q.after.inbl, <<q.o>>))
                         /\ Walk(ReqOne(s, q), Tail(qs))
          IN Walk(pre, e.reqs))
    \* nothing refused is ever sent: every order of every package was accepted
    /\ (e.ev = "cb" => \A i \in DOMAIN e.pkgs : \A j \in DOMAIN e.pkgs[i].orders :
          Ck("C01", "RefusedNeverSent",
             \E k \in DOMAIN e.reqs : e.reqs[k].o = e.pkgs[i].orders[j] /\ e.reqs[k].r = "ACCEPT" /\ e.reqs[k].kind = e.pkgs[i].kind,
             <<e.pkgs[i].kind, e.pkgs[i].orders[j]>>))
    \* ... and an accepted order is handed over once per acceptance: a second hand-over would put an
    \* unvalidated, uncounted copy of the bet on the exchange
    /\ (e.ev = "cb" => \A i \in DOMAIN e.pkgs : \A j \in DOMAIN e.pkgs[i].orders :
          LET k == e.pkgs[i].kind  o == e.pkgs[i].orders[j]
              handed == Cardinality({<<i2, j2>> \in (DOMAIN e.pkgs) \X (1..20) :
                                       j2 \in DOMAIN e.pkgs[i2].orders /\ e.pkgs[i2].kind = k /\ e.pkgs[i2].orders[j2] = o})
              accepted == Cardinality({q \in DOMAIN e.reqs : e.reqs[q].o = o /\ e.reqs[q].kind = k /\ e.reqs[q].r = "ACCEPT"})
          IN Ck("C01", "HandedOncePerAcceptance", handed <= accepted, <<k, o, handed, accepted>>))
    \* consequence: under acknowledgement discipline the worst-case loss per selection stays within the limit
    /\ (e.ev = "upd" =>
          \A sn \in DOMAIN e.a.limits :
             e.a.limits[sn].maxsel >= 0 =>
               \* (a non-runner's price reduction of bets already matched is not among the histories the
               \*  statement quantifies over - fills, cancellations, lapses, suspensions, results - and is C09's subject)
               \A mid \in {m \in DOMAIN pre.mkt : pre.mkt[m].removed = <<>>} :
                  LET bs == BySel(pre, sn, mid) IN
                  \A sk \in DOMAIN bs :
                     Ck("C01", "LossBounded",
                        EXP!SelectionLoss(bs[sk]) <= e.a.limits[sn].maxsel * 100 + (Cardinality(DOMAIN bs[sk]) + 1) * 100,
                        <<sn, mid, sk, EXP!SelectionLoss(bs[sk]), e.a.limits[sn].maxsel>>))


-----------------------------------------------------------------------------
(* C02 request path, on simulation runs with the real controls *)
BagCount(q, x) == Cardinality({i \in DOMAIN q : q[i] = x})
P_C02(pre, e) ==
    e.ev = "cb" =>
    LET acc == SelectSeq(e.reqs, LAMBDA q : q.r = "ACCEPT")
        sentPairs == UNION {{<<e.pkgs[i].kind, e.pkgs[i].orders[j]>> : j \in DOMAIN e.pkgs[i].orders} : i \in DOMAIN e.pkgs}
    IN
    \* a refused / rejected request leaves order, trade, blotter and runner accounting untouched;
    \* only a refused NEW order is marked as a violation (and stays out of the blotter)
    /\ \A i \in DOMAIN e.reqs :
         LET q == e.reqs[i] IN
         (q.r \in {"REFUSE", "ERROR"} /\ "before" \in DOMAIN q) =>
            Ck("C02", "RefusedUnchanged",
               \/ q.before = q.after
               \/ ( /\ q.r = "REFUSE" /\ q.before.status \in {"NONE", "VIOLATION"} /\ ~q.before.inbl
                    /\ q.after.status = "VIOLATION" /\ ~q.after.inbl /\ ~q.after.live
                    /\ [q.after EXCEPT !.status = q.before.status, !.nlog = q.before.nlog] = q.before ),
               <<q.kind, q.o, q.r, q.before, q.after>>)
    \* every accepted request is delivered exactly once, in a package of its kind
    /\ \A i \in DOMAIN acc :
         LET q == acc[i]
             n == Cardinality({k \in DOMAIN acc : acc[k].kind = q.kind /\ acc[k].o = q.o})
             m == Cardinality({<<a, b>> \in (DOMAIN e.pkgs) \X (1..400) : b \in DOMAIN e.pkgs[a].orders /\ e.pkgs[a].kind = q.kind /\ e.pkgs[a].orders[b] = q.o})
         IN Ck("C02", "ExactlyOnce", n = m, <<q.kind, q.o, n, m>>)
    /\ Ck("C02", "NothingUnrequestedSent",
          \A p \in sentPairs : \E k \in DOMAIN acc : acc[k].kind = p[1] /\ acc[k].o = p[2], sentPairs)
    \* one market version per package, as requested
    /\ \A i \in DOMAIN e.pkgs : \A j \in DOMAIN e.pkgs[i].orders :
         (e.pkgs[i].kind \in {"PLACE", "REPLACE"}) =>
            Ck("C02", "OneVersionPerPackage",
               \E k \in DOMAIN acc : acc[k].kind = e.pkgs[i].kind /\ acc[k].o = e.pkgs[i].orders[j] /\ acc[k].mver = e.pkgs[i].mver,
               <<e.pkgs[i].kind, e.pkgs[i].orders[j], e.pkgs[i].mver>>)
    \* a forced request skips the controls but not the order's own guards
    /\ LET RECURSIVE Walk(_, _)
           Walk(s, qs) == IF qs = <<>> THEN TRUE
                          ELSE LET q == Head(qs) IN
                               /\ ((q.force /\ q.r # "NOORDER" /\ q.kind # "PLACE" /\ Has(s.ord, q.o)) =>
                                     Ck("C02", "ForceSkipsOnlyControls",
                                        (q.r = "ACCEPT") = GuardOk(s, q), <<q.kind, q.o, q.r>>))
                               /\ Walk(ReqOne(s, q), Tail(qs))
       IN Walk(pre, e.reqs)


-----------------------------------------------------------------------------
(* C18 transaction-limit control *)
P_C18(pre, e) ==
    LET post == e.st IN
    \* totals: bets submitted (placement and replacement instructions) plus failed instructions
    /\ (e.ev = "exec" /\ e.a.err = "" =>
          Ck("C18", "TotalsExact", Step(pre, e, Oracle(e)).tx = post.tx,
             <<e.a.kind, e.a.orders, "expected", Step(pre, e, Oracle(e)).tx, "got", post.tx>>))
    /\ (e.ev # "exec" => Ck("C18", "CountedOnlyByHandlers", pre.tx = post.tx \/ e.ev = "init", <<e.ev>>))
    \* the control's own view agrees with the totals, hourly = counted since the last restart
    /\ \A c \in DOMAIN e.txs :
         /\ (c \in DOMAIN post.tx => Ck("C18", "TotalsConsistent", e.txs[c].tot = post.tx[c].tot /\ e.txs[c].totf = post.tx[c].totf, c))
         /\ Ck("C18", "HourlyExact", e.txs[c].cur + e.txs[c].curf = e.txs[c].tot + e.txs[c].totf - e.txs[c].base, <<c, e.txs[c]>>)
    \* every request that reaches the control: hour check, then refused iff over the limit
    /\ \A i \in DOMAIN e.txcalls :
         LET k == e.txcalls[i]
             r == TXC!Check([cur |-> k.cur, curf |-> k.curf, tot |-> 0, totf |-> 0, nexthour |-> k.nexthour], k.now, k.limit)
         IN /\ Ck("C18", "BlockedIffOver", k.accepted = r[2], <<k>>)
            /\ Ck("C18", "ResetOnFirstRequestOfNewHour",
                  k.cur2 = r[1].cur /\ k.curf2 = r[1].curf /\ k.nexthour2 = r[1].nexthour, <<k, r[1]>>)
            /\ Ck("C18", "UnlimitedNeverBlocked", k.limit < 0 => k.accepted, <<k>>)
    \* every accepted non-forced request - of whichever kind - went through the client's control and was let through by it
    /\ (e.ev = "cb" => \A j \in DOMAIN e.reqs :
          (e.reqs[j].r = "ACCEPT" /\ ~e.reqs[j].force) =>
             Ck("C18", "AcceptedWasChecked",
                \E i \in DOMAIN e.txcalls : e.txcalls[i].o = e.reqs[j].o /\ e.txcalls[i].kind = e.reqs[j].kind /\ e.txcalls[i].accepted,
                <<e.reqs[j].kind, e.reqs[j].o>>))
    \* a request refused by this control is refused (the request log agrees)
    /\ (e.ev = "cb" => \A i \in DOMAIN e.txcalls :
          ~e.txcalls[i].accepted =>
             Ck("C18", "RefusalHonoured",
                \E j \in DOMAIN e.reqs : e.reqs[j].o = e.txcalls[i].o /\ e.reqs[j].kind = e.txcalls[i].kind /\ e.reqs[j].r = "REFUSE",
                <<e.txcalls[i].kind, e.txcalls[i].o>>))


-----------------------------------------------------------------------------
(* C12, simulated execution: after every execution handler each order of the package can progress *)
P_C12S(pre, e) ==
    e.ev = "exec" =>
    LET post == e.st IN
    /\ Ck("C12", "NoEscapingException", e.a.err = "", <<e.a.kind, e.a.orders, e.a.err>>)
    /\ \A o \in SeqToSet(PkgOrders(pre, e.a.orders)) :
         Has(post.ord, o) => Ck("C12", "NoneStranded", post.ord[o].status \in {"EXECUTABLE", "COMPLETE"}, <<o, e.a.kind, post.ord[o].status>>)
    /\ Ck("C12", "NoTradeLeftPending", TradePendingLeft(post) = {}, TradePendingLeft(post))
    /\ (e.a.err = "" => Ck("C12", "CountsExact", Step(pre, e, Oracle(e)).tx = post.tx, <<e.a.kind, e.a.orders, post.tx>>))
    \* each instruction is applied to its own order: the order-level outcome is the one the specification derives
    /\ (e.a.err = "" => Ck("C12", "ReportToOwner",
          \A o \in SeqToSet(e.a.orders) : Has(post.ord, o) => post.ord[o].status = Step(pre, e, Oracle(e)).ord[o].status,
          {o \in SeqToSet(e.a.orders) : Has(post.ord, o) /\ post.ord[o].status # Step(pre, e, Oracle(e)).ord[o].status}))

-----------------------------------------------------------------------------
StepOK(pre, e) ==
    /\ ("R" \in Props => (Conforms(pre, e) /\ (e.ev = "cb" => ReqVerdicts(pre, e.reqs, 1))))
    /\ ("M" \in Props => /\ (e.ev = "exec" => PlaceConforms(pre, e))
                         /\ (e.ev = "mw" => MwConforms(pre, e) /\ TradedConforms(e)))
    /\ ("C05" \in Props => P_C05(pre, e) /\ P_C05R(pre, e))
    /\ ("C06" \in Props => P_C06(pre, e) /\ P_C06X(pre, e))
    /\ ("C09" \in Props => P_C09(pre, e))
    /\ ("C08" \in Props => P_C08(pre, e))
    /\ ("C20" \in Props => P_C20(pre, e))
    /\ ("C01" \in Props => P_C01(pre, e))
    /\ ("C02" \in Props => P_C02(pre, e))
    /\ ("C18" \in Props => P_C18(pre, e))
    /\ ("C12" \in Props => P_C12S(pre, e))
    /\ ("C07" \in Props => P_C07T(pre, e))
    /\ ("C03" \in Props => P_C03(pre, e))
    /\ ("C04" \in Props => P_C04(pre, e))
    /\ ("C10" \in Props => P_C10(pre, e))
    /\ ("C15" \in Props => P_C15(pre, e))
    /\ ("C07" \in Props => P_C07(pre, e))

Init == tid \in 1..Len(Traces) /\ l = 1
Next == /\ l < NSteps(tid)
        /\ (StepOK(St(l), E(l + 1)) = TRUE)   \* "= TRUE": evaluate as a value, no action-level splitting
        /\ l' = l + 1
        /\ UNCHANGED tid

\* acceptance: every trace is consumed to its end (counted by the harness from the
\* number of distinct states: sum of trace lengths)
=============================================================================
