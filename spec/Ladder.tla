-------------------------------- MODULE Ladder --------------------------------
(***************************************************************************)
(* Exchange price ladders defined from the published increment tables (not  *)
(* from flumine.utils.PRICES), and the order-validation decision table.     *)
(* Prices in thousandths (1.01 = 1010) so that the 0.001 grid is integral.  *)
(*   Betfair classic: 1.01-2 by .01, 2-3 by .02, 3-4 by .05, 4-6 by .1,     *)
(*     6-10 by .2, 10-20 by .5, 20-30 by 1, 30-50 by 2, 50-100 by 5,        *)
(*     100-1000 by 10                                                       *)
(*   Betfair finest:  1.01-1000 by .01                                      *)
(*   Betdaq:          1.01-3 by .01, 3-4 by .05, 4-10 by .1, 10-20 by .5,   *)
(*     20-50 by 1, 50-200 by 2, 200-1000 by 5                               *)
(***************************************************************************)
EXTENDS Integers, Sequences, FiniteSets, TLC

Classic == << <<1010, 2000, 10>>, <<2000, 3000, 20>>, <<3000, 4000, 50>>, <<4000, 6000, 100>>,
              <<6000, 10000, 200>>, <<10000, 20000, 500>>, <<20000, 30000, 1000>>,
              <<30000, 50000, 2000>>, <<50000, 100000, 5000>>, <<100000, 1000000, 10000>> >>
Finest == << <<1010, 1000000, 10>> >>
Betdaq == << <<1010, 3000, 10>>, <<3000, 4000, 50>>, <<4000, 10000, 100>>, <<10000, 20000, 500>>,
             <<20000, 50000, 1000>>, <<50000, 200000, 2000>>, <<200000, 1000000, 5000>> >>

MinP == 1010
MaxP == 1000000

BandOf(tab, x) == CHOOSE i \in DOMAIN tab : tab[i][1] <= x /\ x < tab[i][2]
OnLadder(tab, x) ==
    x = MaxP \/ (x >= MinP /\ x < MaxP /\ LET b == tab[BandOf(tab, x)] IN (x - b[1]) % b[3] = 0)

\* number of ticks of a ladder
TickCount(tab) ==
    LET RECURSIVE go(_)
        go(i) == IF i > Len(tab) THEN 1 ELSE (tab[i][2] - tab[i][1]) \div tab[i][3] + go(i + 1)
    IN go(1)

\* index (0-based) of a tick and the tick at an index
IndexOf(tab, x) ==
    IF x = MaxP THEN TickCount(tab) - 1
    ELSE LET b == BandOf(tab, x)
             RECURSIVE before(_)
             before(i) == IF i >= b THEN 0 ELSE (tab[i][2] - tab[i][1]) \div tab[i][3] + before(i + 1)
         IN before(1) + (x - tab[b][1]) \div tab[b][3]
TickAt(tab, n) ==
    LET RECURSIVE go(_, _)
        go(i, k) == IF i > Len(tab) THEN MaxP
                    ELSE LET cnt == (tab[i][2] - tab[i][1]) \div tab[i][3]
                         IN IF k < cnt THEN tab[i][1] + k * tab[i][3] ELSE go(i + 1, k - cnt)
    IN go(1, n)

\* the two ticks around x (x between MinP and MaxP)
Below(tab, x) == IF x >= MaxP THEN MaxP ELSE LET b == tab[BandOf(tab, x)] IN b[1] + ((x - b[1]) \div b[3]) * b[3]
Above(tab, x) == IF OnLadder(tab, x) THEN x
                 ELSE LET b == tab[BandOf(tab, x)] IN b[1] + ((x - b[1]) \div b[3] + 1) * b[3]   \* = next band start at the edge

\* "r is the closest tick to x" (either neighbour at an exact mid-point), clamped to [1.01, 1000]
IsNearest(tab, x, r) ==
    IF x <= MinP THEN r = MinP
    ELSE IF x >= MaxP THEN r = MaxP
    ELSE LET lo == Below(tab, x)  hi == Above(tab, x)
         IN /\ r \in {lo, hi}
            /\ (IF r = lo THEN x - lo <= hi - x ELSE hi - x <= x - lo)

\* n ticks away, clamped at both ends
TicksAway(tab, x, n) ==
    LET i == IndexOf(tab, x) + n
    IN IF i < 0 THEN MinP ELSE IF i >= TickCount(tab) THEN MaxP ELSE TickAt(tab, i)

\* line ladders: min, min+interval, ... <= max (units in thousandths)
OnLine(lo, hi, step, x) == x >= lo /\ x <= hi /\ (x - lo) % step = 0

\* ---- order validation decision table
\* o = [exchange, type, side, ladder, price (thousandths or -1), size (thousandths of a unit, the
\*      stake for LIMIT, the liability otherwise; -1 = None), line = <<lo, hi, step>>]
\* acct = [minsize, minpayout, minbsp (currency units), validate (min_bet_validation)]
TwoDp(v) == v % 10 = 0
PriceOk(o) ==
    IF o.exchange = "BETDAQ" THEN o.price > 0 /\ OnLadder(Betdaq, o.price)
    ELSE IF o.ladder = "CLASSIC" THEN o.price > 0 /\ OnLadder(Classic, o.price)
    ELSE IF o.ladder = "FINEST" THEN o.price > 0 /\ OnLadder(Finest, o.price)
    ELSE o.price > 0 /\ OnLine(o.line[1], o.line[2], o.line[3], o.price)
Valid(o, acct) ==
    IF o.exchange = "BETDAQ"
    THEN o.type = "LIMIT" /\ o.size > 0 /\ TwoDp(o.size) /\ PriceOk(o)
    ELSE IF o.type = "LIMIT"
    THEN /\ o.size > 0 /\ TwoDp(o.size) /\ PriceOk(o)
         \* refused only if below the minimum stake AND price x stake below the minimum payout
         \* (price x stake < K written as stake < ceil(K / price), in cents / pence, to stay within 32 bits)
         /\ (acct.validate => ~(o.size < acct.minsize * 1000
                                 /\ o.size \div 10 < (acct.minpayout * 10000 + o.price \div 10 - 1) \div (o.price \div 10)))
    ELSE /\ (o.type = "LIMIT_ON_CLOSE" => PriceOk(o))
         /\ o.size > 0 /\ TwoDp(o.size)
         /\ (acct.validate => IF o.side = "BACK" THEN o.size >= acct.minsize * 1000 ELSE o.size >= acct.minbsp * 1000)
=============================================================================
