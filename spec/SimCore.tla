------------------------------ MODULE SimCore ------------------------------
(***************************************************************************)
(* flumine, simulation mode: the order / trade / runner-context / blotter   *)
(* / pending-package state machine as a TRANSITION FUNCTION over explicit   *)
(* state records.                                                           *)
(*                                                                          *)
(*   Step(s, e, n)  = state after event e in state s                        *)
(*                                                                          *)
(* e is an event record with the same shape as one recorded step of the     *)
(* real code (harness/simdrv.py): ev \in {"upd","exec","pend","mw","sweep", *)
(* "cb","close"} plus arguments.  n is an ORACLE record supplying the       *)
(* values this module leaves open (the matching engine's fills, which are   *)
(* specified in SimMatch.tla; control verdicts, specified in Exposure.tla / *)
(* TxnCount.tla).  The design model (MC_SimCore) draws e and n from small   *)
(* menus and lets TLC explore every interleaving; the trace specification   *)
(* (SimTrace) binds e and n to what the implementation logged and checks    *)
(* Step(s_l, e_{l+1}, s_{l+1}) = s_{l+1} on the modelled fields; the replay *)
(* harness drives the real code along TLC-generated behaviours.             *)
(*                                                                          *)
(* Units: sizes in pence, prices in cents, time in ms.                      *)
(* One action per critical section of the implementation:                   *)
(*   upd    FlumineSimulation._process_market_books: simulated clock        *)
(*   exec   SimulatedExecution.execute_place/cancel/update/replace          *)
(*   pend   end of FlumineSimulation._check_pending_packages                *)
(*   mw     Market.__call__ + SimulatedMiddleware.__call__                  *)
(*   sweep  FlumineSimulation._process_simulated_orders (loop part)         *)
(*   cb     one strategy callback: Transaction.place/cancel/update/replace  *)
(*   close  BaseFlumine._process_close_market                               *)
(***************************************************************************)
EXTENDS Integers, Sequences, FiniteSets, TLC

Min(a, b) == IF a < b THEN a ELSE b
Max(a, b) == IF a > b THEN a ELSE b

CompleteSt == {"COMPLETE", "EXPIRED", "VIOLATION"}     \* order.COMPLETE_STATUS
LiveSt     == {"PENDING", "CANCELLING", "UPDATING", "REPLACING", "EXECUTABLE"}
MatchSt    == {"EXECUTABLE", "CANCELLING", "UPDATING", "REPLACING"}  \* middleware.LIVE_STATUS
InFlightSt == {"PENDING", "CANCELLING", "UPDATING", "REPLACING"}

IsComplete(st) == st \in CompleteSt

\* SimulatedOrder.size_remaining
Rem(o) == IF o.type = "LIMIT" THEN o.size - o.m - o.can - o.lap - o.void ELSE 0

Has(f, k) == k \in DOMAIN f

\* function update that also extends the domain
Put(f, k, v) == [x \in DOMAIN f \cup {k} |-> IF x = k THEN v ELSE f[x]]
Del(f, k) == [x \in DOMAIN f \ {k} |-> f[x]]

SeqToSet(q) == {q[i] : i \in DOMAIN q}
RemoveFirst(q, x) ==
    IF \E i \in DOMAIN q : q[i] = x
    THEN LET i == CHOOSE j \in DOMAIN q : q[j] = x /\ \A k \in DOMAIN q : q[k] = x => j <= k
         IN SubSeq(q, 1, i - 1) \o SubSeq(q, i + 1, Len(q))
    ELSE q
AppendNew(q, x) == IF x \in SeqToSet(q) THEN q ELSE Append(q, x)

BlotterSize(s, mid) == Cardinality({x \in DOMAIN s.ord : s.ord[x].mid = mid /\ s.ord[x].inbl})

EmptyRcM(mid) == [trades |-> <<>>, live |-> <<>>, lastp |-> -1, lastr |-> -1, mid |-> mid]
EmptyRc == EmptyRcM("")

-----------------------------------------------------------------------------
(* Trade.complete *)
TradeComplete(s, t) ==
    /\ s.trd[t].status = "LIVE"
    /\ ~s.trd[t].pend
    /\ \A i \in DOMAIN s.trd[t].orders : s.ord[s.trd[t].orders[i]].cplt

(* Trade.complete_trade: status COMPLETE, RunnerContext.reset *)
CompleteTrade(s, t) ==
    LET k  == s.trd[t].rck
        rc == IF Has(s.rc, k) THEN s.rc[k] ELSE EmptyRcM(s.trd[t].mid)   \* get_runner_context creates it
    IN [s EXCEPT !.trd[t].status = "COMPLETE",
                 !.rc = Put(s.rc, k, [rc EXCEPT !.live = RemoveFirst(rc.live, t),
                                                !.lastr = s.clock])]

(* Trade.__enter__ / __exit__ (used as `with order.trade:` around every response) *)
EnterTrade(s, t) == [s EXCEPT !.trd[t].status = "PENDING"]
ExitTrade(s, t) ==
    LET s1 == [s EXCEPT !.trd[t].status = "LIVE"]
    IN IF TradeComplete(s1, t) THEN CompleteTrade(s1, t) ELSE s1

(* BaseOrder._update_status *)
SetStatus(s, o, new) ==
    LET s1 == [s EXCEPT !.ord[o].status = new,
                        !.ord[o].cplt = IsComplete(new),
                        !.ord[o].nlog = @ + 1,
                        !.ord[o].supd = s.clock]
        t == s.ord[o].trade
    IN IF IsComplete(new) /\ new # "VIOLATION" /\ TradeComplete(s1, t)
       THEN CompleteTrade(s1, t) ELSE s1

ClearUpd(s, o) == [s EXCEPT !.ord[o].red = 0, !.ord[o].newp = 0]

(* BaseOrder.executable(): a complete order is never re-opened (see known finding D3) *)
Executable(s, o) ==
    IF s.ord[o].status = "COMPLETE" THEN s
    ELSE ClearUpd(SetStatus(s, o, "EXECUTABLE"), o)
ExecutionComplete(s, o) == ClearUpd(SetStatus(s, o, "COMPLETE"), o)

-----------------------------------------------------------------------------
(* --- upd: the simulated clock is the publish time of the update ---------- *)
StepUpd(s, e) == [s EXCEPT !.clock = e.a.pt]

-----------------------------------------------------------------------------
(* --- exec: one package handed to SimulatedExecution ----------------------- *)
\* BaseOrderPackage.orders filters VIOLATION
PkgOrders(s, labs) == SelectSeq(labs, LAMBDA o : s.ord[o].status # "VIOLATION")

MktOpen(s, mid) == Has(s.mkt, mid) /\ s.mkt[mid].status = "OPEN"

\* SimulatedOrder.cancel: amount cancelled, or -1 for FAILURE
CancelAmount(s, o) ==
    LET r == s.ord[o] IN
    IF ~MktOpen(s, r.mid) THEN -1
    ELSE IF r.type # "LIMIT" THEN -1
    ELSE Min(IF r.red > 0 THEN r.red ELSE Rem(r), Rem(r))

\* execute_place for one order; n.ord[o] supplies the engine's result (SimMatch.tla)
ExecPlaceOne(s, o, n, pt) ==
    LET t  == s.ord[o].trade
        s1 == EnterTrade(s, t)
        res == n.ord[o]
        ok  == res.bet       \* a bet id is issued iff the placement succeeded
        s2 == [s1 EXCEPT !.ord[o].m = res.m, !.ord[o].frags = res.frags,
                         !.ord[o].can = res.can, !.ord[o].lap = res.lap,
                         !.ord[o].void = res.void, !.ord[o].piq = res.piq,
                         !.ord[o].mver = res.mver, !.ord[o].avg = res.avg,
                         !.ord[o].bet = ok, !.ord[o].placed = s.clock]
        s3 == IF ok THEN Executable(s2, o) ELSE ExecutionComplete(s2, o)
    IN ExitTrade(s3, t)

ExecCancelOne(s, o) ==
    LET t  == s.ord[o].trade
        s1 == EnterTrade(s, t)
        c  == CancelAmount(s1, o)
        s2 == IF c >= 0 THEN [s1 EXCEPT !.ord[o].can = @ + c] ELSE s1
        s3 == IF c >= 0
              THEN (IF Rem(s2.ord[o]) = 0 THEN ExecutionComplete(s2, o) ELSE Executable(s2, o))
              ELSE Executable(s2, o)
    IN ExitTrade(s3, t)

\* SimulatedOrder.update succeeds iff market OPEN, persistence enabled, LIMIT with a remainder
UpdateOk(s, o, persEnabled) ==
    /\ MktOpen(s, s.ord[o].mid) /\ persEnabled
    /\ s.ord[o].type = "LIMIT" /\ Rem(s.ord[o]) > 0

ExecUpdateOne(s, o) ==
    LET t == s.ord[o].trade
    IN ExitTrade(Executable(EnterTrade(s, t), o), t)

\* replacement order created by Trade.create_order_replacement
NewReplacement(s, o, r, price, size, created) ==
    LET src == s.ord[o] IN
    [src EXCEPT !.status = "NONE", !.cplt = FALSE, !.bet = FALSE, !.price = price,
                !.size = size, !.m = 0, !.can = 0, !.lap = 0, !.void = 0, !.avg = 0,
                !.frags = <<>>, !.piq = 0, !.bspd = FALSE, !.inbl = FALSE, !.live = FALSE,
                !.created = created, !.placed = -1, !.supd = s.clock, !.red = 0, !.newp = 0,
                !.nlog = 0, !.mver = -1, !.tif = "NONE", !.minfill = -1, !.bseq = -1]

\* execute_replace for one (order, instruction) pair.  rlab = label of the replacement.
ExecReplaceOne(s, o, rlab, newprice, created, n) ==
    LET t  == s.ord[o].trade
        s1 == EnterTrade(s, t)
        c  == CancelAmount(s1, o)
    IN IF c < 0 THEN ExitTrade(Executable(s1, o), t)
       ELSE
        LET s2 == ExecutionComplete([s1 EXCEPT !.ord[o].can = @ + c], o)
            rep == NewReplacement(s2, o, rlab, newprice, c, created)
            res == n.ord[rlab]
            ok  == Has(n.ord, rlab) /\ res.bet
        IN IF ok
           THEN LET s3 == [s2 EXCEPT !.ord = Put(s2.ord, rlab,
                                   [rep EXCEPT !.m = res.m, !.frags = res.frags, !.can = res.can,
                                               !.lap = res.lap, !.void = res.void, !.piq = res.piq,
                                               !.mver = res.mver, !.avg = res.avg, !.bet = TRUE,
                                               !.placed = s.clock]),
                                  !.trd[t].orders = Append(@, rlab)]
                    \* market.place_order(replacement, execute=False): PENDING, blotter, no rc.place
                    s4 == SetStatus(s3, rlab, "PENDING")
                    s5 == [s4 EXCEPT !.ord[rlab].inbl = TRUE, !.ord[rlab].live = TRUE,
                                     !.ord[rlab].bseq = BlotterSize(s4, s4.ord[rlab].mid)]
                IN ExitTrade(Executable(s5, rlab), t)
           ELSE \* placement of the replacement failed: the original stays complete and the
                \* never-placed replacement does not stay in the trade (see known finding D4)
                ExitTrade(s2, t)

RECURSIVE ExecPlaceSeq(_, _, _)
ExecPlaceSeq(s, labs, n) ==
    IF labs = <<>> THEN s ELSE ExecPlaceSeq(ExecPlaceOne(s, Head(labs), n, s.clock), Tail(labs), n)
RECURSIVE ExecCancelSeq(_, _)
ExecCancelSeq(s, labs) ==
    IF labs = <<>> THEN s ELSE ExecCancelSeq(ExecCancelOne(s, Head(labs)), Tail(labs))
RECURSIVE ExecUpdateSeq(_, _)
ExecUpdateSeq(s, labs) ==
    IF labs = <<>> THEN s ELSE ExecUpdateSeq(ExecUpdateOne(s, Head(labs)), Tail(labs))

\* replace: each instruction belongs to its own order (orders complete at execution time
\* are skipped; see known finding D10)
RECURSIVE FoldReplace(_, _, _, _, _)
FoldReplace(s, labs, created, n, k) ==
    IF labs = <<>> THEN s
    ELSE LET o == Head(labs) IN
         IF s.ord[o].status = "COMPLETE"
         THEN FoldReplace(s, Tail(labs), created, n, k)
         ELSE FoldReplace(ExecReplaceOne(s, o, IF Has(n.rlab, o) THEN n.rlab[o] ELSE "?", s.ord[o].newp, created, n),
                          Tail(labs), created, n, k)

FailedCancels(s, labs) ==
    Cardinality({i \in DOMAIN labs : CancelAmount(s, labs[i]) < 0})

StepExec(s, e, n) ==
    LET labs == PkgOrders(s, e.a.orders)
        cl == e.a.client
        kind == e.a.kind
    IN IF kind = "PLACE"
       THEN LET s1 == ExecPlaceSeq(s, labs, n)
            IN [s1 EXCEPT !.tx[cl].tot = @ + Len(labs),
                          !.hq = [i \in DOMAIN s1.hq |-> IF i = e.a.qi THEN [s1.hq[i] EXCEPT !.done = TRUE] ELSE s1.hq[i]]]
       ELSE IF kind = "CANCEL"
       THEN LET s1 == ExecCancelSeq(s, labs)
                f == FailedCancels(s, labs)
            IN [s1 EXCEPT !.tx[cl].totf = @ + f,
                          !.hq = [i \in DOMAIN s1.hq |-> IF i = e.a.qi THEN [s1.hq[i] EXCEPT !.done = TRUE] ELSE s1.hq[i]]]
       ELSE IF kind = "UPDATE"
       THEN LET s1 == ExecUpdateSeq(s, labs)
                f == Cardinality({i \in DOMAIN labs : ~UpdateOk(s, labs[i], e.a.persok)})
            IN [s1 EXCEPT !.tx[cl].totf = @ + f,
                          !.hq = [i \in DOMAIN s1.hq |-> IF i = e.a.qi THEN [s1.hq[i] EXCEPT !.done = TRUE] ELSE s1.hq[i]]]
       ELSE \* REPLACE
            LET live == SelectSeq(labs, LAMBDA o : s.ord[o].status # "COMPLETE")
                s1 == FoldReplace(s, labs, e.a.created, n, 1)
                f == FailedCancels(s, live)
            IN [s1 EXCEPT !.tx[cl].tot = @ + Len(live),
                          !.tx[cl].totf = @ + f,
                          !.hq = [i \in DOMAIN s1.hq |-> IF i = e.a.qi THEN [s1.hq[i] EXCEPT !.done = TRUE] ELSE s1.hq[i]]]

\* a package is due when strictly more than its delay has elapsed (C07)
Due(s, p, mid) == p.mid = mid /\ ~p.done /\ s.clock - p.created > p.delay

(* --- pend: processed packages leave the queue ----------------------------- *)
StepPend(s, e) == [s EXCEPT !.hq = SelectSeq(s.hq, LAMBDA p : ~p.done)]

-----------------------------------------------------------------------------
(* --- mw: new book applied, removals, passive matching --------------------- *)
\* engine results (sizes, fragments, queue position, SP completion) come from the oracle n;
\* SimMatch.tla specifies them.  Status changes inside the middleware: only
\* SimulatedOrder._process_sp -> order.execution_complete().
MwOrder(s, o, n) ==
    LET r == n.ord[o]
        s1 == [s EXCEPT !.ord[o].m = r.m, !.ord[o].frags = r.frags, !.ord[o].can = r.can,
                        !.ord[o].lap = r.lap, !.ord[o].void = r.void, !.ord[o].piq = r.piq,
                        !.ord[o].mver = r.mver, !.ord[o].avg = r.avg, !.ord[o].bspd = r.bspd,
                        !.ord[o].size = r.size]
    IN IF r.status = "COMPLETE" /\ r.nlog > s.ord[o].nlog /\ s.ord[o].status \in MatchSt
       THEN ExecutionComplete(s1, o) ELSE s1

RECURSIVE MwSet(_, _, _)
MwSet(s, S, n) ==
    IF S = {} THEN s
    ELSE LET x == CHOOSE y \in S : TRUE IN MwSet(MwOrder(s, x, n), S \ {x}, n)

StepMw(s, e, n) ==
    LET mid == e.a.mid
        s1 == [s EXCEPT !.mkt = Put(s.mkt, mid, n.mkt[mid])]
        os == {o \in DOMAIN s.ord : s.ord[o].mid = mid /\ s.ord[o].inbl}
    IN MwSet(s1, os, n)

-----------------------------------------------------------------------------
(* --- sweep: FlumineSimulation._process_simulated_orders -------------------- *)
SweepOne(s, o) ==
    LET r == s.ord[o] IN
    IF ~r.live THEN s
    ELSE IF r.cplt THEN [s EXCEPT !.ord[o].live = FALSE]
    ELSE IF r.type = "LIMIT"
         THEN IF Rem(r) = 0
              THEN [ExecutionComplete(s, o) EXCEPT !.ord[o].live = FALSE]
              ELSE s
         ELSE \* LIMIT_ON_CLOSE / MARKET_ON_CLOSE: SimulatedOrder.status
              IF r.bspd \/ r.void > 0 THEN [ExecutionComplete(s, o) EXCEPT !.ord[o].live = FALSE] ELSE s

RECURSIVE SweepSet(_, _)
SweepSet(s, S) ==
    IF S = {} THEN s
    ELSE LET x == CHOOSE y \in S : TRUE IN SweepSet(SweepOne(s, x), S \ {x})

StepSweep(s, e) ==
    SweepSet(s, {o \in DOMAIN s.ord : s.ord[o].mid = e.a.mid /\ s.ord[o].inbl})

-----------------------------------------------------------------------------
(* --- cb: strategy requests (Transaction) ---------------------------------- *)
\* BaseStrategy.validate_order
ValidateOrder(s, q) ==
    LET k == q.rck
        rc == IF Has(s.rc, k) THEN s.rc[k] ELSE EmptyRc
        t == q.t
        inTrades == t \in SeqToSet(rc.trades)
        inLive == t \in SeqToSet(rc.live)
        resetEl == IF rc.lastr >= 0 THEN s.clock - rc.lastr ELSE -1
        placeEl == IF rc.lastp >= 0 THEN s.clock - rc.lastp ELSE -1
    IN IF q.multi /\ inLive THEN TRUE
       ELSE IF resetEl >= 0 /\ resetEl < q.reset THEN FALSE
       ELSE IF placeEl >= 0 /\ placeEl < q.placereset THEN FALSE
       ELSE IF (Len(rc.trades) = q.maxtrades /\ ~inTrades) \/ Len(rc.trades) > q.maxtrades THEN FALSE
       ELSE IF (Len(rc.live) = q.maxlive /\ ~inLive) \/ Len(rc.live) > q.maxlive THEN FALSE
       ELSE TRUE

NewOrderRec(s, q) ==
    [status |-> "NONE", cplt |-> FALSE, bet |-> FALSE, side |-> q.side, type |-> q.otype,
     price |-> q.price, size |-> q.size, pers |-> q.pers, tif |-> q.tif, minfill |-> q.minfill,
     m |-> 0, can |-> 0, lap |-> 0, void |-> 0, avg |-> 0, frags |-> <<>>, piq |-> 0,
     bspd |-> FALSE, inbl |-> FALSE, live |-> FALSE, trade |-> q.t, sel |-> q.sel,
     mid |-> q.mid, strat |-> q.strat, rck |-> q.rck, created |-> s.clock, placed |-> -1,
     supd |-> s.clock, red |-> 0, newp |-> 0, nlog |-> 0, mver |-> -1,
     selk |-> q.selk, client |-> q.client, bseq |-> -1, lad |-> q.lad]

EnsureOrder(s, q) ==
    LET s1 == IF Has(s.trd, q.t) THEN s
              ELSE [s EXCEPT !.trd = Put(s.trd, q.t, [status |-> "LIVE", orders |-> <<>>,
                                                       pend |-> q.pendorders, rck |-> q.rck,
                                                       mid |-> q.mid])]
    IN IF Has(s1.ord, q.o) THEN s1
       ELSE [s1 EXCEPT !.ord = Put(s1.ord, q.o, NewOrderRec(s1, q)),
                       !.trd[q.t].orders = Append(@, q.o)]

\* guards of BetfairOrder.cancel / update / replace (OrderUpdateError otherwise)
GuardOk(s, q) ==
    LET r == s.ord[q.o] IN
    IF q.kind = "CANCEL"
    THEN r.bet /\ r.type = "LIMIT" /\ ~(q.red > 0 /\ Rem(r) - q.red < 0) /\ r.status = "EXECUTABLE"
    ELSE IF q.kind = "UPDATE"
    THEN r.bet /\ r.type = "LIMIT" /\ r.pers # q.pers /\ r.status = "EXECUTABLE"
    ELSE IF q.kind = "REPLACE"
    THEN r.bet /\ r.type \in {"LIMIT", "LIMIT_ON_CLOSE"} /\ r.price # q.price /\ r.status = "EXECUTABLE"
    ELSE TRUE

\* a placement request for an order that already exists concerns that order's own trade
NormReq(s, q) == IF q.kind = "PLACE" /\ q.r # "NOORDER" /\ Has(s.ord, q.o)
                 THEN [q EXCEPT !.t = s.ord[q.o].trade, !.rck = s.ord[q.o].rck] ELSE q

\* what the request must answer, as far as this module determines it:
\*   "ERROR"  guard fails;  "REFUSE" a modelled control refuses;  "ANY" left to the
\*   exposure / validation / transaction-count controls (Exposure.tla, Ladder.tla, TxnCount.tla)
Expected(s, q0) ==
    LET q == NormReq(s, q0) IN
    IF q.r = "NOORDER" THEN "NOORDER"
    ELSE IF q.kind = "PLACE"
    THEN IF Has(s.ord, q.o) /\ s.ord[q.o].inbl
         THEN (IF q.force THEN "ERROR" ELSE "ERRORorREFUSE")   \* OrderError: already placed
         ELSE IF q.force THEN "ACCEPT"
         ELSE IF ~MktOpen(s, q.mid) THEN "REFUSE"
         ELSE IF ~ValidateOrder(s, q) THEN "REFUSE"
         ELSE "ANY"
    ELSE IF ~Has(s.ord, q.o) THEN "ANY"
    ELSE IF q.tclient # "" /\ q.tclient # s.ord[q.o].client THEN "ERROR"    \* OrderError: other client's order
    ELSE IF ~q.force /\ ~MktOpen(s, q.mid) THEN "REFUSE"
    ELSE IF q.force THEN (IF GuardOk(s, q) THEN "ACCEPT" ELSE "ERROR")
    ELSE IF ~GuardOk(s, q) THEN "ERRORorREFUSE"
    ELSE "ANY"

ReqOneN(s, q) ==
    IF q.r = "NOORDER" THEN s
    ELSE IF q.kind = "PLACE"
    THEN LET s00 == EnsureOrder(s, q)
             \* order.update_client(transaction client) comes first - unless the order is already in the blotter: a placed
             \* order keeps its client, the second placement is rejected (D29)
             s0 == IF s00.ord[q.o].inbl THEN s00 ELSE [s00 EXCEPT !.ord[q.o].client = q.client]
             s1 == IF q.ctx THEN EnterTrade(s0, q.t) ELSE s0
             s2 == IF s0.ord[q.o].inbl THEN s1   \* already placed: rejected, nothing changes
                   ELSE IF q.r = "REFUSE" THEN ClearUpd(SetStatus(s1, q.o, "VIOLATION"), q.o)
                   ELSE IF q.r = "ERROR" THEN s1
                   ELSE \* ACCEPT: order.place, blotter[...] = order, runner_context.place
                     LET a1 == SetStatus(s1, q.o, "PENDING")
                         a2 == [a1 EXCEPT !.ord[q.o].inbl = TRUE, !.ord[q.o].live = TRUE,
                                          !.ord[q.o].bseq = BlotterSize(a1, q.mid)]
                         k == q.rck
                         rc == IF Has(a2.rc, k) THEN a2.rc[k] ELSE EmptyRcM(q.mid)
                     IN [a2 EXCEPT !.rc = Put(a2.rc, k,
                            [rc EXCEPT !.trades = AppendNew(rc.trades, q.t),
                                       !.live = AppendNew(rc.live, q.t),
                                       !.lastp = s.clock])]
         IN IF q.ctx THEN ExitTrade(s2, q.t) ELSE s2
    ELSE IF q.r = "REFUSE" /\ Has(s.ord, q.o) /\ s.ord[q.o].status \in {"NONE", "VIOLATION"}
    THEN ClearUpd(SetStatus(s, q.o, "VIOLATION"), q.o)   \* never placed: marked a violation (again)
    ELSE IF q.r # "ACCEPT" THEN s     \* refused or rejected: nothing changes (C02)
    ELSE IF q.kind = "CANCEL"
    THEN SetStatus([s EXCEPT !.ord[q.o].red = q.red], q.o, "CANCELLING")
    ELSE IF q.kind = "UPDATE"
    THEN SetStatus([s EXCEPT !.ord[q.o].pers = q.pers], q.o, "UPDATING")
    ELSE SetStatus([s EXCEPT !.ord[q.o].newp = q.price], q.o, "REPLACING")

ReqOne(s, q) == ReqOneN(s, NormReq(s, q))

RECURSIVE FoldReqs(_, _)
FoldReqs(s, qs) == IF qs = <<>> THEN s ELSE FoldReqs(ReqOne(s, Head(qs)), Tail(qs))

\* packages created by the transaction(s) of this callback, appended in creation order
PkgOf(s, p) == [kind |-> p.kind, orders |-> p.orders, created |-> s.clock, delay |-> p.delay,
                mid |-> p.mid, mver |-> p.mver, done |-> FALSE, client |-> p.client]

StepCb(s, e) ==
    LET s1 == FoldReqs(s, e.reqs)
    IN [s1 EXCEPT !.hq = s1.hq \o [i \in DOMAIN e.pkgs |-> PkgOf(s1, e.pkgs[i])]]

-----------------------------------------------------------------------------
(* --- close: BaseFlumine._process_close_market (simulation) ---------------- *)
StepClose(s, e, n) ==
    LET mid == e.a.mid
        \* orders filled by the packages executed on this (closing) update are completed first:
        \* no later update of the market would do it
        s0 == StepSweep(s, e)
    IN
    \* a market not seen open is added first (as the live framework does), then closed
    [s0 EXCEPT !.mkt = Put(s0.mkt, mid, n.mkt[mid]),
                    !.rc = [k \in {x \in DOMAIN s0.rc : s0.rc[x].mid # mid} |-> s0.rc[k]]]

-----------------------------------------------------------------------------
Step(s, e, n) ==
    CASE e.ev = "upd"   -> StepUpd(s, e)
      [] e.ev = "exec"  -> StepExec(s, e, n)
      [] e.ev = "pend"  -> StepPend(s, e)
      [] e.ev = "mw"    -> StepMw(s, e, n)
      [] e.ev = "sweep" -> StepSweep(s, e)
      [] e.ev = "cb"    -> StepCb(s, e)
      [] e.ev = "close" -> StepClose(s, e, n)
      [] e.ev = "qclear" -> [s EXCEPT !.hq = <<>>]   \* FlumineSimulation.run: handler_queue.clear()
      [] OTHER          -> s

=============================================================================
