------------------------------- MODULE Betdaq -------------------------------
(***************************************************************************)
(* The BETDAQ order path of flumine at handler granularity, as a transition *)
(* function over a state record (used by the design model MC_Betdaq and by  *)
(* the trace specification BdqTrace):                                       *)
(*   - requests of a strategy (BetdaqOrder.place / cancel / update through  *)
(*     Transaction): guards, in-flight statuses, packages queued for the    *)
(*     single execution thread                                              *)
(*   - the execution thread (BetdaqExecution.execute_place / _cancel /      *)
(*     _update): API call against the exchange, per-order reports with      *)
(*     return codes, reports missing, the call raising (applied or not)     *)
(*   - the exchange: orders with status / matched / remaining / price and a *)
(*     sequence number bumped by every change (fills, cancels, updates)     *)
(*   - the polled order stream (BetdaqOrderPolling): a list of the orders   *)
(*     changed since the last poll is taken, queued for the main loop and   *)
(*     processed later (process_betdaq_current_order)                       *)
(*                                                                         *)
(* state record s:                                                          *)
(*   ord    label -> [status, bet, m, rem, seq, live, price, newp, size]    *)
(*   x      label -> [status, m, rem, seq, price]   (exchange; absent: none)*)
(*   xseq   exchange sequence counter                                       *)
(*   pool   Seq([kind, orders])  queue of the execution thread              *)
(*   wire   <<>> or <<[kind, orders, oc, codes, reported, applied]>>: the    *)
(*          exchange has applied / answered and whose response is not yet   *)
(*          handled                                                         *)
(*   hq     Seq(Seq(entry))      polled lists waiting for the main loop     *)
(*   polled highest sequence number the poller has seen                     *)
(***************************************************************************)
EXTENDS Integers, Sequences, FiniteSets, TLC

Has(f, k) == k \in DOMAIN f
SeqToSet(q) == {q[i] : i \in DOMAIN q}
Max2(a, b) == IF a >= b THEN a ELSE b

LegalPairs ==
    {<<"NONE", "PENDING">>, <<"NONE", "VIOLATION">>, <<"VIOLATION", "PENDING">>, <<"VIOLATION", "VIOLATION">>,
     <<"PENDING", "EXECUTABLE">>, <<"PENDING", "COMPLETE">>,
     <<"EXECUTABLE", "CANCELLING">>, <<"EXECUTABLE", "UPDATING">>, <<"EXECUTABLE", "COMPLETE">>,
     <<"EXECUTABLE", "EXECUTABLE">>,
     <<"CANCELLING", "EXECUTABLE">>, <<"CANCELLING", "COMPLETE">>,
     <<"UPDATING", "EXECUTABLE">>, <<"UPDATING", "COMPLETE">>,
     <<"COMPLETE", "COMPLETE">>}
InFlightOf(kind) == CASE kind = "PLACE" -> "PENDING" [] kind = "CANCEL" -> "CANCELLING"
                     [] kind = "UPDATE" -> "UPDATING" [] OTHER -> "?"
OpenAtExchange(xs) == xs \in {"Unmatched", "Suspended"}

\* BaseOrder.executable(): complete is final; otherwise the order rests again and its update data is dropped
SetExec(r) == IF r.status = "COMPLETE" THEN r ELSE [r EXCEPT !.status = "EXECUTABLE", !.newp = 0]
\* BaseOrder.execution_complete()
SetComplete(r) == [r EXCEPT !.status = "COMPLETE", !.newp = 0]

InitState == [ord |-> <<>>, x |-> <<>>, xseq |-> 0, pool |-> <<>>, wire |-> <<>>, hq |-> <<>>, polled |-> 0]

-----------------------------------------------------------------------------
(* requests *)
\* (a BETDAQ order without any response yet reports no remaining size)
NewOrder(q) == [status |-> "PENDING", bet |-> FALSE, m |-> 0, rem |-> 0, seq |-> -1, live |-> TRUE,
                price |-> q.price, newp |-> 0, size |-> q.size]

\* the verdict on one request against state s
ReqVerdict(s, q) ==
    IF q.kind = "PLACE" THEN (IF Has(s.ord, q.o) THEN "ERROR" ELSE "ACCEPT")
    ELSE IF ~Has(s.ord, q.o) THEN "NOORDER"
    ELSE IF s.ord[q.o].status = "EXECUTABLE" /\ s.ord[q.o].bet THEN "ACCEPT" ELSE "ERROR"

ReqApply(s, q) ==
    IF ReqVerdict(s, q) # "ACCEPT" THEN s
    ELSE IF q.kind = "PLACE" THEN [s EXCEPT !.ord = [k \in DOMAIN s.ord \cup {q.o} |-> IF k = q.o THEN NewOrder(q) ELSE s.ord[k]]]
    ELSE IF q.kind = "CANCEL" THEN [s EXCEPT !.ord[q.o].status = "CANCELLING"]
    ELSE [s EXCEPT !.ord[q.o].status = "UPDATING", !.ord[q.o].newp = q.price]

\* a sequence of requests made in one strategy callback; txn: all in one transaction (one package per
\* kind holding every accepted order, in the order place, cancel, update) - otherwise one package each
RECURSIVE ReqSeq(_, _, _, _)
ReqSeq(s, qs, txn, acc) ==      \* acc: accepted requests so far
    IF qs = <<>> THEN
       IF txn
       THEN LET pk(kind) == LET os == SelectSeq(acc, LAMBDA q : q.kind = kind)
                            IN IF os = <<>> THEN <<>> ELSE <<[kind |-> kind, orders |-> [i \in DOMAIN os |-> os[i].o]]>>
            IN [s EXCEPT !.pool = s.pool \o pk("PLACE") \o pk("CANCEL") \o pk("UPDATE")]
       ELSE s
    ELSE LET q == Head(qs)
             ok == ReqVerdict(s, q) = "ACCEPT"
             s1 == ReqApply(s, q)
             s2 == IF ok /\ ~txn THEN [s1 EXCEPT !.pool = Append(s1.pool, [kind |-> q.kind, orders |-> <<q.o>>])] ELSE s1
         IN ReqSeq(s2, Tail(qs), txn, IF ok THEN Append(acc, q) ELSE acc)
StepReq(s, e) == ReqSeq(s, e.reqs, e.a.txn, <<>>)

-----------------------------------------------------------------------------
(* exchange *)
Bump(s) == s.xseq + 1
XNew(s, o) == [s EXCEPT !.xseq = Bump(s),
                        !.x = [k \in DOMAIN s.x \cup {o} |-> IF k = o THEN [status |-> "Unmatched", m |-> 0, rem |-> s.ord[o].size,
                                                                              seq |-> Bump(s), price |-> s.ord[o].price]
                                                             ELSE s.x[k]]]
XCancel(s, o) == IF Has(s.x, o) /\ OpenAtExchange(s.x[o].status)
                 THEN [s EXCEPT !.xseq = Bump(s), !.x[o].status = "Cancelled", !.x[o].rem = 0, !.x[o].seq = Bump(s)]
                 ELSE s
XFill(s, o, amt) == IF Has(s.x, o) /\ OpenAtExchange(s.x[o].status) /\ amt > 0 /\ amt <= s.x[o].rem
                    THEN [s EXCEPT !.xseq = Bump(s), !.x[o].m = @ + amt, !.x[o].rem = @ - amt, !.x[o].seq = Bump(s),
                                   !.x[o].status = IF s.x[o].rem = amt THEN "Matched" ELSE @]
                    ELSE s
XUpdate(s, o, price) == [s EXCEPT !.xseq = Bump(s), !.x[o].price = price, !.x[o].seq = Bump(s)]
StepXFill(s, e) == XFill(s, e.a.o, e.a.amount)
StepXCancel(s, e) == XCancel(s, e.a.o)

-----------------------------------------------------------------------------
(* execution thread (one thread: one call at a time).  The head of the pool is CALLED: the request is built
   from the orders of the package and sent, the exchange applies it and decides its answer, which is then on the
   wire; later the RESPONSE is handled by BetdaqExecution.  In between the main thread goes on: requests,
   polls taken and processed, fills.
   call  e.a = [kind, oc, codes, missing]:
         oc "answer" (codes: order -> return code, 0 = fine; missing: cancelled orders without a report),
            "raise" (the call failed, nothing applied), "raise_applied" (applied, but no answer)
   resp  handles s.wire = [kind, orders, oc, codes (as answered), reported (cancel reports)]
   nobuild  an update package whose orders have lost their update data: building the request fails before
         anything is sent, every order is reset
   run   = call followed at once by resp (or nobuild)                                                        *)
Sent(s, p) == SelectSeq(p.orders, LAMBDA o : Has(s.ord, o) /\ s.ord[o].status # "VIOLATION")
Cancellable(s, o) == Has(s.x, o) /\ OpenAtExchange(s.x[o].status)
UpdateRefused(s, o) == ~(Has(s.x, o) /\ OpenAtExchange(s.x[o].status))       \* the exchange answers with an error code
\* an update is sent only if every order of the package still carries its update data (an order that
\* was reset or completed meanwhile has none)
Updatable(s, os) == os # <<>> /\ \A i \in DOMAIN os : s.ord[os[i]].newp # 0
Buildable(s) == s.pool # <<>> /\ (Head(s.pool).kind = "UPDATE" => Updatable(s, Sent(s, Head(s.pool))))

\* -- the exchange's side of a call, order by order; returns the state and the answer per order
RECURSIVE XPlace(_, _, _)
XPlace(s, os, a) ==
    IF os = <<>> THEN s
    ELSE LET o == Head(os)
             applied == a.oc = "raise_applied" \/ (a.oc = "answer" /\ a.codes[o] = 0)
         IN XPlace(IF applied /\ ~Has(s.x, o) THEN XNew(s, o) ELSE s, Tail(os), a)
RECURSIVE XCancelAll(_, _, _)
XCancelAll(s, os, a) ==
    IF os = <<>> \/ a.oc = "raise" THEN s ELSE XCancelAll(XCancel(s, Head(os)), Tail(os), a)
RECURSIVE XUpdateAll(_, _, _)
XUpdateAll(s, os, a) ==
    IF os = <<>> \/ a.oc = "raise" THEN s
    ELSE LET o == Head(os)
             fine == ~UpdateRefused(s, o) /\ (a.oc = "raise_applied" \/ a.codes[o] = 0)
         IN XUpdateAll(IF fine THEN XUpdate(s, o, s.ord[o].newp) ELSE s, Tail(os), a)

StepCall(s, e) ==
    LET p == Head(s.pool)
        s0 == [s EXCEPT !.pool = Tail(s.pool)]
        os == Sent(s, p)
        a == e.a
        s1 == IF p.kind = "PLACE" THEN XPlace(s0, os, a) ELSE IF p.kind = "CANCEL" THEN XCancelAll(s0, os, a) ELSE XUpdateAll(s0, os, a)
        \* the answer as the exchange gives it (judged on the state the call met)
        codes == [o \in SeqToSet(os) |-> IF a.oc # "answer" \/ p.kind = "CANCEL" THEN 0      \* (cancel reports carry no code)
                                         ELSE IF p.kind = "UPDATE" /\ UpdateRefused(s0, o) /\ a.codes[o] = 0 THEN 136 ELSE a.codes[o]]
        reported == IF p.kind = "CANCEL" /\ a.oc = "answer"
                    THEN SelectSeq(os, LAMBDA o : Cancellable(s0, o) /\ o \notin a.missing) ELSE <<>>
        \* the orders for which the exchange applied the request
        applied == SelectSeq(os, LAMBDA o :
                      IF p.kind = "PLACE" THEN a.oc = "raise_applied" \/ (a.oc = "answer" /\ a.codes[o] = 0)
                      ELSE IF p.kind = "CANCEL" THEN a.oc # "raise" /\ Cancellable(s0, o)
                      ELSE a.oc # "raise" /\ ~UpdateRefused(s0, o) /\ (a.oc = "raise_applied" \/ a.codes[o] = 0))
    IN [s1 EXCEPT !.wire = <<[kind |-> p.kind, orders |-> os, oc |-> a.oc, codes |-> codes, reported |-> reported, applied |-> applied]>>]

\* -- BetdaqExecution.execute_place / _cancel / _update on the answer
RECURSIVE RPlace(_, _, _)
RPlace(s, os, w) ==
    IF os = <<>> THEN s
    ELSE LET o == Head(os)
             r == s.ord[o]
             s2 == IF w.oc = "answer" /\ w.codes[o] = 0
                   \* (the receipt carries the unmatched stake; a poll processed meanwhile has the newer figures)
                   THEN [s EXCEPT !.ord[o] = SetExec([r EXCEPT !.bet = TRUE, !.rem = IF r.seq = -1 THEN r.size ELSE @])]
                   ELSE [s EXCEPT !.ord[o] = SetComplete(@)]               \* error code / no answer: execution_complete()
         IN RPlace(s2, Tail(os), w)
RECURSIVE RCancel(_, _, _)
RCancel(s, os, w) ==
    IF os = <<>> THEN s
    ELSE LET o == Head(os)
             s2 == IF w.oc = "answer" /\ o \in SeqToSet(w.reported) THEN [s EXCEPT !.ord[o] = SetComplete(@)]
                   ELSE [s EXCEPT !.ord[o] = SetExec(@)]                 \* not returned / no answer: reset
         IN RCancel(s2, Tail(os), w)
RECURSIVE RUpdate(_, _, _)
RUpdate(s, os, w) ==
    IF os = <<>> THEN s
    ELSE LET o == Head(os)
             s2 == IF w.oc = "answer" /\ w.codes[o] = 0 THEN s          \* stays UPDATING until the poll shows the change
                   ELSE [s EXCEPT !.ord[o] = SetExec(@)]
         IN RUpdate(s2, Tail(os), w)
RECURSIVE ResetSeq(_, _)
ResetSeq(s, os) == IF os = <<>> THEN s ELSE ResetSeq([s EXCEPT !.ord[Head(os)] = SetExec(@)], Tail(os))

StepResp(s, e) ==
    IF s.wire = <<>> THEN s
    ELSE LET w == s.wire[1]
             s0 == [s EXCEPT !.wire = <<>>]
             \* (the handlers walk the orders the package holds now: an order refused meanwhile is not among them)
             os == SelectSeq(w.orders, LAMBDA o : s.ord[o].status # "VIOLATION")
         IN IF w.kind = "PLACE" THEN RPlace(s0, os, w) ELSE IF w.kind = "CANCEL" THEN RCancel(s0, os, w) ELSE RUpdate(s0, os, w)

StepNoBuild(s, e) == LET p == Head(s.pool) IN ResetSeq([s EXCEPT !.pool = Tail(s.pool)], Sent(s, p))
StepRun(s, e) == IF Buildable(s) THEN StepResp(StepCall(s, e), e) ELSE StepNoBuild(s, e)

-----------------------------------------------------------------------------
(* polled order stream *)
Entry(s, o) == [o |-> o, status |-> s.x[o].status, m |-> s.x[o].m, rem |-> s.x[o].rem, seq |-> s.x[o].seq, price |-> s.x[o].price]
\* the orders changed since the last poll, in the order of their sequence numbers
ChangedSince(s) == {o \in DOMAIN s.x : s.x[o].seq > s.polled}
RECURSIVE BySeq(_, _)
BySeq(s, S) == IF S = {} THEN <<>>
               ELSE LET o == CHOOSE k \in S : \A j \in S : s.x[k].seq <= s.x[j].seq
                    IN <<Entry(s, o)>> \o BySeq(s, S \ {o})
StepSnap(s, e) ==
    LET diff == BySeq(s, ChangedSince(s))
    IN IF diff = <<>> THEN s
       ELSE [s EXCEPT !.hq = Append(s.hq, diff), !.polled = s.xseq]

\* process_betdaq_current_order
ProcOne(s, c) ==
    IF ~Has(s.ord, c.o) THEN s
    ELSE LET r0 == s.ord[c.o]
             open == OpenAtExchange(c.status)
             \* update_current_order: the local copy of sizes and sequence number follows the polled entry
             r == [r0 EXCEPT !.m = c.m, !.seq = c.seq, !.rem = IF c.status = "Cancelled" THEN 0 ELSE c.rem]
             confirmed == r0.status = "UPDATING" /\ r0.seq # c.seq      \* any new sequence number counts as the confirmation
             r2 == IF r0.status = "PENDING" /\ r0.bet THEN (IF open THEN SetExec(r) ELSE SetComplete(r))
                   ELSE IF confirmed THEN (IF open THEN SetExec([r EXCEPT !.price = c.price]) ELSE SetComplete([r EXCEPT !.price = c.price]))
                   ELSE IF r0.status = "EXECUTABLE" /\ ~open THEN SetComplete(r)
                   ELSE r
         IN [s EXCEPT !.ord[c.o] = [r2 EXCEPT !.live = IF r2.status \in {"COMPLETE", "VIOLATION"} THEN FALSE ELSE @]]
RECURSIVE ProcSeq(_, _)
ProcSeq(s, cs) == IF cs = <<>> THEN s ELSE ProcSeq(ProcOne(s, Head(cs)), Tail(cs))
StepProc(s, e) == IF s.hq = <<>> THEN s ELSE ProcSeq([s EXCEPT !.hq = Tail(s.hq)], Head(s.hq))

-----------------------------------------------------------------------------
Step(s, e) ==
    CASE e.ev = "req" -> StepReq(s, e)
      [] e.ev = "run" -> StepRun(s, e)
      [] e.ev = "call" -> StepCall(s, e)
      [] e.ev = "resp" -> StepResp(s, e)
      [] e.ev = "nobuild" -> StepNoBuild(s, e)
      [] e.ev = "xfill" -> StepXFill(s, e)
      [] e.ev = "xcancel" -> StepXCancel(s, e)
      [] e.ev = "snap" -> StepSnap(s, e)
      [] e.ev = "proc" -> StepProc(s, e)
      [] OTHER -> s

-----------------------------------------------------------------------------
(* C03 on two consecutive states *)
\* once an order that was sent has been reported complete it never becomes live again; its matched size
\* may still catch up with the exchange through the polled stream, it never goes down
FinalityBroken(a, b) ==
    {o \in DOMAIN a.ord \cap DOMAIN b.ord :
        a.ord[o].status = "COMPLETE" /\ ~(b.ord[o].status = "COMPLETE" /\ b.ord[o].m >= a.ord[o].m)}
\* at most one operation per order outstanding (queued or on the wire)
\* (an update that the exchange has applied is confirmed by the poll, by design before or after its response is
\*  handled: from then on it is not outstanding for the order any more)
Outstanding(s) == s.pool \o [i \in DOMAIN s.wire |->
                     [kind |-> s.wire[i].kind,
                      orders |-> IF s.wire[i].kind = "UPDATE"
                                 THEN SelectSeq(s.wire[i].orders, LAMBDA o : o \notin SeqToSet(s.wire[i].applied)) ELSE s.wire[i].orders]]
InFlightCount(s, o) == Cardinality({i \in DOMAIN Outstanding(s) : o \in SeqToSet(Outstanding(s)[i].orders)})
\* while a request for an order is queued or on the wire the order shows the in-flight status of that request
\* (or has meanwhile completed for another reason: matched or cancelled at the exchange, seen through the poll)
InFlightWrong(s) ==
    LET P == Outstanding(s) IN
    UNION {{<<P[i].kind, o>> : o \in {k \in SeqToSet(P[i].orders) : Has(s.ord, k) /\ s.ord[k].status \notin {InFlightOf(P[i].kind), "COMPLETE"}}} :
           i \in DOMAIN P}
StatusStep(a, b) == {<<a.ord[o].status, b.ord[o].status>> : o \in DOMAIN a.ord \cap DOMAIN b.ord}
=============================================================================
