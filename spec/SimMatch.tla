------------------------------ MODULE SimMatch ------------------------------
(***************************************************************************)
(* The simulated exchange's matching engine as pure functions, transcribed  *)
(* from flumine/simulation/simulatedorder.py and flumine/markets/           *)
(* middleware.py:                                                           *)
(*                                                                          *)
(*   Place(o, mb, rb, env)      SimulatedOrder.place  (decision tree)       *)
(*   Passive(o, mb, rb, tr, env) SimulatedOrder.__call__ (SP reconciliation,*)
(*                              suspension lapse, traded-volume matching)   *)
(*   Removal...                 SimulatedMiddleware._process_runner_removal *)
(*                                                                          *)
(* plus the formulas of C05 / C06 / C09 stated on their results.  Sizes in  *)
(* pence, prices in cents.  Ladders are sequences of <<price, size>> in the *)
(* order the engine reads them (available-to-back best = highest first,     *)
(* available-to-lay best = lowest first).                                   *)
(***************************************************************************)
EXTENDS SimCore

\* ---------------------------------------------------------------- arithmetic helpers
Abs(x) == IF x < 0 THEN -x ELSE x
\* round(num/den) half-up on non-negative rationals, and "this division is an exact tie"
RoundDiv(num, den) == (2 * num + den) \div (2 * den)
IsTie(num, den) == (2 * num) % (2 * den) = den

RECURSIVE SumPS(_)      \* sum of price*size over fragments <<pt, price, size>>
SumPS(f) == IF f = <<>> THEN 0 ELSE f[1][2] * f[1][3] + SumPS(Tail(f))
RECURSIVE SumS(_)
SumS(f) == IF f = <<>> THEN 0 ELSE f[1][3] + SumS(Tail(f))

\* utils.wap on fragments: <<size matched, average price (cents, rounded)>>
Wap(f) == IF SumS(f) = 0 \/ SumPS(f) = 0 THEN <<0, 0>>
          ELSE <<SumS(f), RoundDiv(SumPS(f), SumS(f))>>
WapTie(f) == SumS(f) > 0 /\ IsTie(SumPS(f), SumS(f))

Crosses(side, limit, p) == IF side = "BACK" THEN limit <= p ELSE limit >= p

\* ---------------------------------------------------------------- placement
\* _process_price_matched: take level by level while the level's price satisfies the limit
RECURSIVE TakeLevels(_, _, _, _, _)
TakeLevels(side, limit, want, levels, pt) ==
    IF want = 0 \/ levels = <<>> THEN <<>>
    ELSE IF Crosses(side, limit, levels[1][1])
         THEN LET t == Min(want, levels[1][2])
              IN <<<<pt, levels[1][1], t>>>> \o TakeLevels(side, limit, want - t, Tail(levels), pt)
         ELSE <<>>

\* _process_price_matched_vwap: keep taking levels while the running VWAP satisfies the limit
RECURSIVE TakeVwap(_, _, _, _, _, _)
TakeVwap(side, limit, want, levels, pt, acc) ==
    IF want = 0 \/ levels = <<>> THEN acc
    ELSE LET t == Min(want, levels[1][2])
             acc2 == Append(acc, <<pt, levels[1][1], t>>)
             avg == Wap(acc2)[2]
         IN IF (side = "BACK" /\ avg >= limit) \/ (side = "LAY" /\ avg <= limit)
            THEN TakeVwap(side, limit, want - t, Tail(levels), pt, acc2)
            ELSE acc
RECURSIVE VwapHasTie(_, _, _, _)
VwapHasTie(want, levels, pt, acc) ==
    IF want = 0 \/ levels = <<>> THEN FALSE
    ELSE LET t == Min(want, levels[1][2])
             acc2 == Append(acc, <<pt, levels[1][1], t>>)
         IN WapTie(acc2) \/ VwapHasTie(want - t, Tail(levels), pt, acc2)

SizeAt(levels, p) ==
    IF \E i \in DOMAIN levels : levels[i][1] = p
    THEN levels[CHOOSE i \in DOMAIN levels : levels[i][1] = p /\ \A j \in DOMAIN levels : levels[j][1] = p => i <= j][2]
    ELSE 0

\* result record of a placement
Res(o, ok, frags, can, lap, void, piq, mver) ==
    [ok |-> ok, frags |-> frags, m |-> Wap(frags)[1], avg |-> Wap(frags)[2],
     can |-> can, lap |-> lap, void |-> void, piq |-> piq, mver |-> mver]

\* env = [pkgmver, bpe, fullmatch, pt, instr] ; instr = TRUE when the instruction carries the
\* limit order (a placement), FALSE for the re-placement of a replace (no time in force there)
Place(o, mb, rb, env) ==
    LET rem == Rem(o)
        fail(can, lap, void, mver) == Res(o, FALSE, o.frags, o.can + can, o.lap + lap, o.void + void, o.piq, mver)
    IN
    IF mb.status # "OPEN" THEN fail(0, 0, rem, o.mver)
    ELSE IF env.pkgmver > 0 /\ env.pkgmver # mb.version THEN fail(0, rem, 0, mb.version)
    ELSE IF rb.status = "REMOVED" THEN fail(0, 0, rem, mb.version)
    ELSE IF o.type # "LIMIT"
    THEN IF ~mb.bsp \/ mb.bsprec \/ mb.inplay THEN fail(0, 0, rem, mb.version)
         ELSE Res(o, TRUE, o.frags, o.can, o.lap, o.void, o.piq, mb.version)
    ELSE
      LET fok == env.instr /\ o.tif = "FOK"
          minfill == IF env.instr /\ o.minfill > 0 THEN o.minfill ELSE o.size
          same == IF o.side = "BACK" THEN rb.atb ELSE rb.atl     \* the side the order takes from
          other == IF o.side = "BACK" THEN rb.atl ELSE rb.atb    \* the side it would queue on
          best == IF same # <<>> THEN same[1][1] ELSE (IF o.side = "BACK" THEN 101 ELSE 100000)
          bestsize == IF same # <<>> THEN same[1][2] ELSE 0
          through == IF o.side = "BACK" THEN best > o.price ELSE best < o.price
          behind == IF o.side = "BACK" THEN o.price > best ELSE o.price < best
          withfull(r) ==   \* client.simulated_full_match: the remainder of a successful placement
              IF env.fullmatch /\ r.ok /\ o.size - r.m - r.can - r.lap - r.void > 0
              THEN LET f2 == Append(r.frags, <<-1, o.price, o.size - r.m - r.can - r.lap - r.void>>)
                   IN [r EXCEPT !.frags = f2, !.m = Wap(f2)[1], !.avg = Wap(f2)[2]]
              ELSE r
      IN
      IF fok /\ minfill > o.size THEN fail(rem, 0, 0, mb.version)
      ELSE IF ~env.bpe /\ through THEN fail(0, rem, 0, mb.version)
      ELSE IF fok
      THEN IF behind THEN withfull(Res(o, TRUE, o.frags, o.can + rem, o.lap, o.void, o.piq, mb.version))
           ELSE IF o.price = best
           THEN LET fr == IF bestsize >= minfill THEN o.frags \o TakeLevels(o.side, o.price, o.size, same, env.pt) ELSE o.frags
                    m2 == Wap(fr)[1]
                IN withfull(Res(o, TRUE, fr, o.can + (o.size - m2 - o.can - o.lap - o.void), o.lap, o.void, o.piq, mb.version))
           ELSE LET fr0 == TakeVwap(o.side, o.price, o.size, same, env.pt, o.frags)
                    kill == Wap(fr0)[1] < minfill
                    fr == IF kill THEN <<>> ELSE fr0
                    m2 == Wap(fr)[1]
                    \* the code cancels the remainder once inside the vwap routine when it kills and
                    \* once more after it (the second time the remainder is already zero)
                IN withfull(Res(o, TRUE, fr, o.can + (o.size - m2 - o.can - o.lap - o.void), o.lap, o.void, o.piq, mb.version))
      ELSE IF ~behind
      THEN withfull(Res(o, TRUE, o.frags \o TakeLevels(o.side, o.price, o.size, same, env.pt), o.can, o.lap, o.void, o.piq, mb.version))
      ELSE withfull(Res(o, TRUE, o.frags, o.can, o.lap, o.void, SizeAt(other, o.price), mb.version))

PlaceAmbiguous(o, rb, env) ==   \* the VWAP comparison hits an exact rounding tie
    /\ o.type = "LIMIT" /\ env.instr /\ o.tif = "FOK"
    /\ VwapHasTie(o.size, IF o.side = "BACK" THEN rb.atb ELSE rb.atl, env.pt, o.frags)

\* ---------------------------------------------------------------- C05 formulas
\* every fragment produced by a placement respects the limit (FOK: their VWAP does)
NewFrags(before, after) == SubSeq(after, Len(before) + 1, Len(after))
FillWithinLimit(o, newfr, fok) ==
    IF newfr = <<>> THEN TRUE
    ELSE IF fok
    THEN LET num == SumPS(newfr)  den == SumS(newfr)
         IN IF o.side = "BACK" THEN 2 * num + den >= 2 * den * o.price    \* rounded VWAP >= limit
            ELSE 2 * num - den <= 2 * den * o.price
    ELSE \A i \in DOMAIN newfr : Crosses(o.side, o.price, newfr[i][2])
\* no price level is overdrawn: per price, the amount taken <= the amount available there
TakenAt(newfr, p) == SumS(SelectSeq(newfr, LAMBDA f : f[2] = p))
LevelNotOverdrawn(o, newfr, rb) ==
    LET levels == IF o.side = "BACK" THEN rb.atb ELSE rb.atl
    IN \A i \in DOMAIN newfr : TakenAt(newfr, newfr[i][2]) <= SizeAt(levels, newfr[i][2])
\* fill-or-kill: filled by at least the minimum fill or not at all; nothing rests
FokAllOrNothing(o, after) ==
    LET minfill == IF o.minfill > 0 THEN o.minfill ELSE o.size
        newm == after.m - o.m
    IN /\ (newm = 0 \/ newm >= minfill)
       /\ Rem(after) = 0
\* best price execution off: an order priced through the best price lapses
BpeLapses(o, rb, after) ==
    LET same == IF o.side = "BACK" THEN rb.atb ELSE rb.atl
        best == IF same # <<>> THEN same[1][1] ELSE (IF o.side = "BACK" THEN 101 ELSE 100000)
        through == IF o.side = "BACK" THEN best > o.price ELSE best < o.price
    IN through => (after.m = o.m /\ Rem(after) = 0 /\ after.lap = o.lap + Rem(o))

\* ---------------------------------------------------------------- passive matching
\* traded: function price -> volume traded in this update (the strategy's working copy)
\* eligible prices for an order, ascending (dict order of RunnerAnalytics._calculate_traded)
RECURSIVE SortAsc(_)
SortAsc(S) == IF S = {} THEN <<>>
              ELSE LET x == CHOOSE y \in S : \A z \in S : y <= z IN <<x>> \o SortAsc(S \ {x})

Eligible(o, tp) == IF o.side = "BACK" THEN tp >= o.price ELSE tp <= o.price

\* an odd reported volume at a price the order is eligible for: half of it is a fraction of a penny
\* and binary floating point decides the rounding (recorded data; generated scenarios trade even pence)
TradedTie(o, traded) == \E tp \in DOMAIN traded : Eligible(o, tp) /\ traded[tp] % 2 = 1
OddLevels(o, d) == Cardinality({tp \in DOMAIN d : Eligible(o, tp) /\ d[tp] % 2 = 1})

\* _process_traded over the price levels; returns <<order', traded'>>
RECURSIVE ProcTraded(_, _, _, _)
ProcTraded(o, traded, prices, pt) ==
    IF prices = <<>> THEN <<o, traded>>
    ELSE LET tp == Head(prices)
             ts == traded[tp]
         IN IF ~Eligible(o, tp) THEN ProcTraded(o, traded, Tail(prices), pt)
            ELSE LET half2 == ts      \* twice the half, to stay in integers: compare 2*piq with ts
                 IN IF 2 * o.piq < ts
                    THEN LET avail2 == ts - 2 * o.piq                  \* twice the amount beyond the queue
                             size == Min(Rem(o), RoundDiv(avail2, 2))
                             o2 == IF size > 0
                                   THEN [o EXCEPT !.frags = Append(@, <<pt, o.price, size>>),
                                                  !.m = Wap(Append(o.frags, <<pt, o.price, size>>))[1],
                                                  !.avg = Wap(Append(o.frags, <<pt, o.price, size>>))[2],
                                                  !.piq = 0]
                                   ELSE [o EXCEPT !.piq = 0]
                             used == 2 * (o.piq + size)
                             left == Max(ts - used, 0)
                         IN ProcTraded(o2, IF used > 0 THEN [traded EXCEPT ![tp] = left] ELSE traded, Tail(prices), pt)
                    ELSE \* whole volume absorbed by the queue ahead
                         ProcTraded([o EXCEPT !.piq = @ - RoundDiv(ts, 2)],
                                    IF ts > 0 THEN [traded EXCEPT ![tp] = 0] ELSE traded, Tail(prices), pt)

TakesSp(o) == (o.type = "LIMIT" /\ o.pers = "MARKET_ON_CLOSE") \/ o.type # "LIMIT"

\* _process_sp; sp in cents (> 100), minbsp = client.min_bsp_liability (pence).
\* returns <<order', completes?>> ; sizes rounded half-up (ties flagged by SpTie)
SpSizeNum(o) == IF o.type = "LIMIT" THEN (o.price - 100) * Rem(o) ELSE o.size * 100
ProcSp(o, sp, pt, minbsp) ==
    IF sp <= 100 THEN <<o, FALSE>>     \* SP not available: warning only
    ELSE
    LET done(x) == <<[x EXCEPT !.bspd = TRUE], TRUE>>
        fill(x, size) == done([x EXCEPT !.frags = Append(@, <<pt, sp, size>>),
                                       !.m = Wap(Append(x.frags, <<pt, sp, size>>))[1],
                                       !.avg = Wap(Append(x.frags, <<pt, sp, size>>))[2]])
    IN IF o.type = "LIMIT"
       THEN IF o.side = "BACK" THEN fill(o, Rem(o))
            ELSE IF (o.price - 100) * Rem(o) >= minbsp * 100
                 THEN LET size == SpSizeNum(o) \div (sp - 100)     \* rounded down: never more liability than the order had
                      IN fill([o EXCEPT !.can = @ + (Rem(o) - size)], size)
                 ELSE done([o EXCEPT !.lap = @ + Rem(o)])
       ELSE IF o.type = "LIMIT_ON_CLOSE"
       THEN IF o.side = "BACK"
            THEN (IF sp < o.price THEN done(o) ELSE fill(o, o.size))
            ELSE (IF sp > o.price THEN done(o) ELSE fill(o, RoundDiv(o.size * 100, sp - 100)))
       ELSE IF o.side = "BACK" THEN fill(o, o.size)
            ELSE fill(o, RoundDiv(o.size * 100, sp - 100))
SpTie(o, sp) == sp > 100 /\ o.side = "LAY" /\ o.type # "LIMIT" /\ IsTie(SpSizeNum(o), sp - 100)

\* SimulatedOrder.__call__ for one order; returns <<order', traded', completes?>>
Passive(o, mb, rb, traded, pt, minbsp) ==
    IF ~o.bspd /\ mb.bsprec /\ TakesSp(o)
    THEN LET r == ProcSp(o, rb.sp, pt, minbsp) IN <<r[1], traded, r[2]>>
    ELSE LET o1 == IF ~o.bspd /\ mb.bsprec THEN [o EXCEPT !.bspd = TRUE] ELSE o
         IN IF o1.type # "LIMIT" THEN <<o1, traded, FALSE>>
            ELSE IF mb.version # o1.mver /\ mb.status = "SUSPENDED" /\ o1.pers = "LAPSE"
                 THEN <<[o1 EXCEPT !.mver = mb.version, !.lap = @ + Rem(o1)], traded, FALSE>>
                 ELSE LET o2 == [o1 EXCEPT !.mver = mb.version]
                          r == ProcTraded(o2, traded, SortAsc(DOMAIN traded), pt)
                      IN <<r[1], r[2], FALSE>>

\* SimulatedMiddleware._sort_orders: lay by price descending, back by price ascending, then
\* market-on-close; stable within equal prices (blotter order = bseq)
SortKey(o) ==   \* smaller = earlier
    IF o.type = "MARKET_ON_CLOSE" THEN <<2, 0, o.bseq>>
    ELSE IF o.side = "LAY" THEN <<0, -o.price, o.bseq>>
    ELSE <<1, o.price, o.bseq>>
Before(a, b) == LET x == SortKey(a) y == SortKey(b) IN
    \/ x[1] < y[1]
    \/ (x[1] = y[1] /\ x[2] < y[2])
    \/ (x[1] = y[1] /\ x[2] = y[2] /\ x[3] < y[3])

RECURSIVE SortOrders(_, _)
SortOrders(ord, S) ==
    IF S = {} THEN <<>>
    ELSE LET x == CHOOSE y \in S : \A z \in S \ {y} : Before(ord[y], ord[z])
         IN <<x>> \o SortOrders(ord, S \ {x})

\* ---------------------------------------------------------------- removal
\* price after a reduction factor af (in 1/100 of a percent): within half a cent of p*(1-af)
ReducedPriceOk(newp, p, af) ==
    \/ (newp = 101 /\ p * (10000 - af) <= 101 * 10000 + 5000)
    \/ (newp >= 101 /\ Abs(newp * 10000 - p * (10000 - af)) <= 5000)

\* ---------------------------------------------------------------- whole-step predictions
\* (used by the trace specification for conformance and by the replay harness)

RunnerOf(book, sel) == book.r[sel]
SelKey(o) == o.selk      \* selection id as the string key of book.r

\* fields of an order record the matching engine owns
EngineView(o) == [m |-> o.m, frags |-> o.frags, can |-> o.can, lap |-> o.lap, void |-> o.void,
                  piq |-> o.piq, mver |-> o.mver, bspd |-> o.bspd, avg |-> o.avg]
ApplyRes(o, r) == [o EXCEPT !.m = r.m, !.frags = r.frags, !.can = r.can, !.lap = r.lap,
                            !.void = r.void, !.piq = r.piq, !.mver = r.mver, !.avg = r.avg]

\* per strategy (isolation on) or per instance (off): fold Passive over the sorted live orders,
\* each runner having its own working copy of the traded ladder
RECURSIVE FoldPassive(_, _, _, _, _, _, _)
FoldPassive(ord, done, labs, tradedBySel, book, pt, minbsp) ==    \* -> <<ord', completed-by-SP set>>
    IF labs = <<>> THEN <<ord, done>>
    ELSE LET lab == Head(labs)
             o == ord[lab]
             sk == SelKey(o)
         IN IF ~(sk \in DOMAIN tradedBySel) \/ ~(sk \in DOMAIN book.r)
            THEN FoldPassive(ord, done, Tail(labs), tradedBySel, book, pt, minbsp)
            ELSE LET r == Passive(o, book, book.r[sk], tradedBySel[sk], pt, minbsp[o.client])
                 IN FoldPassive([ord EXCEPT ![lab] = r[1]], IF r[3] THEN done \cup {lab} ELSE done,
                                Tail(labs), [tradedBySel EXCEPT ![sk] = r[2]], book, pt, minbsp)


\* groups of live orders that share one working copy of the traded ladders
\* (SimulatedMiddleware._process_simulated_orders: per strategy when isolation is on, else one)
GroupsOf(ord, mid, iso) ==
    IF iso THEN {{o \in DOMAIN ord : ord[o].mid = mid /\ ord[o].inbl /\ ord[o].strat = sn /\ ord[o].status \in MatchSt} :
                   sn \in {ord[x].strat : x \in {y \in DOMAIN ord : ord[y].mid = mid}}}
    ELSE {{o \in DOMAIN ord : ord[o].mid = mid /\ ord[o].inbl /\ ord[o].live /\ ord[o].status \in MatchSt}}

\* one whole matching pass over a market
MwAll(ord, mid, iso, tradedBySel, book, pt, minbsp) ==
    LET RECURSIVE go(_, _)
        go(o, gs) == IF gs = {} THEN o
                     ELSE LET g == CHOOSE x \in gs : TRUE
                              res == FoldPassive(o, {}, SortOrders(o, g), tradedBySel, book, pt, minbsp)
                          IN go(res[1], gs \ {g})
    IN go(ord, GroupsOf(ord, mid, iso))

\* traded ladders as functions price -> size, from the logged sequences of <<price, size>>
LadderFn(q) == [p \in {q[i][1] : i \in DOMAIN q} |-> q[CHOOSE i \in DOMAIN q : q[i][1] = p][2]]

=============================================================================
