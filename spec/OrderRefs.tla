------------------------------- MODULE OrderRefs -------------------------------
(***************************************************************************)
(* Customer order references: reference = strategy hash (13 chars) . sep .  *)
(* order id; received back from the exchange it is split at fixed offsets   *)
(* (flumine/order/process.py: ref[:13] and ref[14:]).                       *)
(* Text is a sequence of character codes.                                   *)
(***************************************************************************)
EXTENDS Integers, Sequences, FiniteSets, TLC

HashLen == 13
MaxRef == 32
\* characters the exchange accepts in a customer reference: letters, digits, - . _ + * : ; ~
ValidCodes == (48..57) \cup (65..90) \cup (97..122) \cup {45, 46, 95, 43, 42, 58, 59, 126}

Make(hash, sep, id) == hash \o sep \o id
ParseHash(ref) == SubSeq(ref, 1, HashLen)
ParseId(ref) == SubSeq(ref, HashLen + 2, Len(ref))

ValidSep(sep) == Len(sep) = 1 /\ sep[1] \in ValidCodes
ValidRef(ref) == Len(ref) <= MaxRef /\ \A i \in DOMAIN ref : ref[i] \in ValidCodes
RoundTrip(hash, sep, id) == LET r == Make(hash, sep, id) IN ParseHash(r) = hash /\ ParseId(r) = id
=============================================================================
