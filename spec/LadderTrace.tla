----------------------------- MODULE LadderTrace -----------------------------
(* C17: results of the real price helpers and of the real OrderValidation control, judged
   against Ladder.tla.  One case (a batch of evaluations) per state. *)
EXTENDS Ladder, Json, IOUtils, TLCExt
CONSTANT Props
VARIABLES tid
Cases == JsonDeserialize(IOEnv.TRACE_FILE)
C == Cases[tid]
Viol(name, detail) == PrintT(<<"VIOL", "C17", name, C.id, 0, detail>>)
Ck(name, cond, detail) == IF cond THEN TRUE ELSE Viol(name, detail)
TabOf(n) == IF n = "CLASSIC" THEN Classic ELSE IF n = "FINEST" THEN Finest ELSE Betdaq

\* x given in thousandths plus eps in {-1,0,1} (a float neighbour just below / above the grid point)
NearestOk(tab, x, eps, r) ==
    IF x < MinP \/ (x = MinP /\ eps <= 0) THEN r = MinP
    ELSE IF x > MaxP \/ (x = MaxP /\ eps > 0) THEN r = MaxP
    ELSE IF x = MaxP THEN r = MaxP
    ELSE /\ OnLadder(tab, r)
         /\ LET lo == Below(tab, x)  hi == Above(tab, IF OnLadder(tab, x) /\ eps > 0 THEN x + 1 ELSE x)
                lo2 == IF OnLadder(tab, x) /\ eps < 0 /\ x > MinP THEN Below(tab, x - 1) ELSE lo
                dlo == (x - lo2) * 10 + eps       \* distances in 1/10000
                dhi == (hi - x) * 10 - eps
            IN /\ r \in {lo2, hi}
               /\ (IF r = lo2 THEN dlo <= dhi ELSE dhi <= dlo)

CaseOK ==
    /\ (C.kind = "nearest" =>
          \A i \in DOMAIN C.pairs :
             LET p == C.pairs[i] IN
             IF NearestOk(TabOf(C.tab), p[1], p[2], p[3]) THEN TRUE
             ELSE Viol("NearestIsClosestTick", <<C.tab, p>>))
    /\ (C.kind = "idem" =>
          \A i \in DOMAIN C.pairs :
             Ck("NearestIdempotent", C.pairs[i][1] = C.pairs[i][2] /\ OnLadder(TabOf(C.tab), C.pairs[i][1]), <<C.tab, C.pairs[i]>>))
    /\ (C.kind = "ticks" =>
          \A i \in DOMAIN C.triples :
             LET t == C.triples[i] IN
             IF TicksAway(TabOf(C.tab), t[1], t[2]) = t[3] THEN TRUE
             ELSE Viol("TicksAwayExact", <<C.tab, t, "expected", TicksAway(TabOf(C.tab), t[1], t[2])>>))
    /\ (C.kind = "ladder" =>
          /\ Ck("LadderLength", Len(C.prices) = TickCount(TabOf(C.tab)), <<C.tab, Len(C.prices)>>)
          /\ \A i \in DOMAIN C.prices : Ck("LadderTick", C.prices[i] = TickAt(TabOf(C.tab), i - 1), <<C.tab, i, C.prices[i]>>))
    /\ (C.kind = "line" =>
          \A i \in DOMAIN C.lines :
             LET l == C.lines[i] IN
             Ck("LinePrices",
                /\ \A j \in DOMAIN l.prices : OnLine(l.lo, l.hi, l.step, l.prices[j])
                /\ Len(l.prices) = (l.hi - l.lo) \div l.step + 1
                /\ \A j \in 1..(Len(l.prices) - 1) : l.prices[j + 1] = l.prices[j] + l.step,
                <<l.lo, l.hi, l.step, Len(l.prices)>>))
    /\ (C.kind = "valid" =>
          \A i \in DOMAIN C.rows :
             LET row == C.rows[i] IN
             IF Valid(row.o, row.acct) = row.accepted THEN TRUE
             ELSE Viol("ValidationDecision", <<row.o, row.acct, "accepted", row.accepted>>))

Init == tid \in 1..Len(Cases) /\ (CaseOK = TRUE)
Next == UNCHANGED tid
=============================================================================
