------------------------------- MODULE TxnCount -------------------------------
(***************************************************************************)
(* MaxTransactionCount (flumine/controls/clientcontrols.py) per client:     *)
(*   Add(c, n, failed)    execution handler reports n transactions          *)
(*   Check(c, now)        a non-forced request reaches the control:         *)
(*                        _check_hour (restart the hourly counters when the *)
(*                        clock hour of now+1h differs from the stored next *)
(*                        hour) then safe (hourly total <= limit)           *)
(* time in seconds since the epoch; HourOf(t) = index of the clock hour.    *)
(***************************************************************************)
EXTENDS Integers, Sequences, FiniteSets, TLC

HourLen == 3600
HourOf(t) == t \div HourLen

\* counters of one client: [cur, curf, tot, totf, nexthour (hour index or -1)]
Fresh == [cur |-> 0, curf |-> 0, tot |-> 0, totf |-> 0, nexthour |-> -1]

Add(c, n, failed) == IF failed THEN [c EXCEPT !.totf = @ + n, !.curf = @ + n]
                     ELSE [c EXCEPT !.tot = @ + n, !.cur = @ + n]

\* _check_hour: next_hour = (now + 1h) truncated to the hour; restart when it differs
CheckHour(c, now) ==
    LET nh == HourOf(now) + 1
    IN IF c.nexthour = -1 \/ c.nexthour # nh THEN [c EXCEPT !.cur = 0, !.curf = 0, !.nexthour = nh] ELSE c

Safe(c, limit) == limit < 0 \/ c.cur + c.curf <= limit       \* limit -1 = None
\* result of a request reaching the control: <<counters', accepted?>>
Check(c, now, limit) == LET c2 == CheckHour(c, now) IN <<c2, Safe(c2, limit)>>
=============================================================================
