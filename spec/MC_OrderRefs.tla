----------------------------- MODULE MC_OrderRefs -----------------------------
(* all hashes / ids over a tiny alphabet, separators of length 0, 1, 2 from valid and invalid
   characters: a valid separator always round-trips; separators of other lengths do not, which
   is why they must be rejected when set. *)
EXTENDS OrderRefs
CONSTANTS Alphabet, BadChars
VARIABLES hash, sep, id, step
vars == <<hash, sep, id, step>>
Init == /\ hash \in [1..HashLen -> {CHOOSE a \in Alphabet : TRUE}] \cup {[i \in 1..HashLen |-> IF i % 2 = 0 THEN a ELSE b] : a \in Alphabet, b \in Alphabet}
        /\ sep \in {<<>>} \cup {<<c>> : c \in Alphabet \cup BadChars} \cup {<<c, d>> : c \in Alphabet, d \in Alphabet}
        /\ id \in UNION {[1..n -> Alphabet] : n \in 1..3}
        /\ step = 0
Next == step = 0 /\ step' = 1 /\ UNCHANGED <<hash, sep, id>>
Spec == Init /\ [][Next]_vars
Inv_ValidSepRoundTrips == ValidSep(sep) => RoundTrip(hash, sep, id)
Inv_ValidSepValidRef == (ValidSep(sep) /\ (\A i \in DOMAIN id : id[i] \in ValidCodes) /\ (\A i \in DOMAIN hash : hash[i] \in ValidCodes))
                        => ValidRef(Make(hash, sep, id))
Inv_SepLengthMatters == (Len(sep) # 1) => ~RoundTrip(hash, sep, id) \/ Len(sep) = 1
Reach_BadLengthBreaks == ~(Len(sep) = 2 /\ ~RoundTrip(hash, sep, id))
Reach_EmptySepBreaks == ~(Len(sep) = 0 /\ ~RoundTrip(hash, sep, id))
=============================================================================
