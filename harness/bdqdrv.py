"""BETDAQ live-mode driver: a real Flumine instance with a BetdaqClient whose betting client is an exchange
double speaking the dictionaries of the `betdaq` library (place receipts, update / cancel reports, polled
orders), the single execution thread replaced by a deterministic queue of thunks, the polled order stream
replaced by explicit steps.  Every schedule is an explicit ordering of handler-granularity steps:

  req      strategy requests on the main thread (Transaction; one package each, or one transaction)
  run      the head of the execution thread's queue: API call at the double (scripted outcome: answer with
           return codes / reports missing / the call raising, applied or not) + BetdaqExecution's handling
  xfill / xcancel   the exchange matches part / all of an order, or cancels it (every change bumps the
           exchange's sequence number)
  snap     the poller takes the orders changed since its last poll (kept in a FIFO queue)
  proc     the main loop processes the oldest kept list (BaseFlumine._process_current_orders ->
           process_betdaq_current_orders)

The projected state has the shape of spec/Betdaq.tla's state record.  No flumine source hook.
"""
import sys
import time
import logging
import collections

from flumine import Flumine, BaseStrategy, clients
from flumine.clients import ExchangeType
from flumine.events import events as fevents
from flumine.order.trade import Trade
from flumine.order.order import BaseOrder
from flumine.order.ordertype import BetdaqLimitOrder
from flumine.exceptions import OrderUpdateError, OrderError
from betdaq import BetdaqError
from betdaq.enums import OrderStatus as BdqStatus
from betfairlightweight.streaming.cache import MarketBookCache

from .simdrv import STATUS_NAME, KIND_NAME, pence, Patches
from .livedrv import DetPool

logging.getLogger("flumine").setLevel(logging.CRITICAL + 1)


class BdqExchange:
    """the exchange: orders by id, a global sequence number bumped by every change"""

    def __init__(self):
        self.betting = self
        self.orders = collections.OrderedDict()     # order id -> dict
        self.seq = 0
        self.next_id = 5000
        self.plan = None
        self.calls = []
        self.username = "daq"
        self.on_call = None        # driver hook: called after the exchange applied the request, before the answer travels back

    # --- exchange-side changes
    def _bump(self, o):
        self.seq += 1
        o["seq"] = self.seq

    def new_order(self, ins):
        self.next_id += 1
        o = {"id": self.next_id, "ref": ins["PunterReferenceNumber"], "status": "Unmatched", "m": 0.0, "rem": float(ins["Stake"]), "price": float(ins["Price"]),
             "polarity": ins["Polarity"], "runner": ins["SelectionId"]}
        self._bump(o)
        self.orders[o["id"]] = o
        return o

    def fill(self, oid, amount):
        o = self.orders.get(oid)
        if o is None or o["status"] != "Unmatched" or amount <= 0 or amount > o["rem"] + 1e-9:
            return False
        o["m"] = round(o["m"] + amount, 2)
        o["rem"] = round(o["rem"] - amount, 2)
        if o["rem"] == 0:
            o["status"] = "Matched"
        self._bump(o)
        return True

    def cancel(self, oid):
        o = self.orders.get(oid)
        if o is None or o["status"] != "Unmatched":
            return None
        o["status"] = "Cancelled"
        c, o["rem"] = o["rem"], 0.0
        self._bump(o)
        return c

    # --- API (dictionaries as the betdaq library parses them)
    def _enter(self, kind, n):
        plan = self.plan or {}
        self.plan = None
        rec = {"kind": kind, "n": n, "oc": plan.get("oc", "answer"), "plan": plan}
        self.calls.append(rec)
        return plan, rec

    def _failed(self, rec):
        rec["answer"] = {}
        if self.on_call:
            self.on_call(rec)

    def place_orders(self, order_list, **kw):
        plan, rec = self._enter("PLACE", len(order_list))
        oc = plan.get("oc", "answer")
        if oc == "raise":
            self._failed(rec)
            raise BetdaqError("injected")
        out = []
        for ins in order_list:
            code = (plan.get("codes") or {}).get(str(ins["PunterReferenceNumber"]), 0)
            if oc == "raise_applied" or code == 0:
                o = self.new_order(ins)
                out.append({"order_id": o["id"], "side": "BACK" if o["polarity"] == 1 else "LAY", "size_remaining": o["rem"], "matched_price": 0.0, "matched_size": 0.0,
                            "matched_lay_size": 0.0, "sent_time": None, "status": BdqStatus(2), "runner_sequence_number": 1, "runner_id": o["runner"],
                            "customer_reference": o["ref"], "return_code": 0})
            else:
                out.append({"order_id": None, "side": None, "size_remaining": 0.0, "matched_price": 0.0, "matched_size": 0.0, "matched_lay_size": 0.0, "sent_time": None,
                            "status": None, "runner_sequence_number": None, "runner_id": ins["SelectionId"], "customer_reference": ins["PunterReferenceNumber"], "return_code": code})
        rec["answer"] = {"codes": {str(r["customer_reference"]): (r["return_code"] or 0) for r in out} if oc == "answer" else {}, "reported": [],
                         "applied": [str(r["customer_reference"]) for r in out if r["order_id"] is not None]}
        if self.on_call:
            self.on_call(rec)
        if oc == "raise_applied":
            raise BetdaqError("injected after the exchange applied the request")
        return out

    def cancel_orders(self, order_ids, **kw):
        plan, rec = self._enter("CANCEL", len(order_ids))
        oc = plan.get("oc", "answer")
        if oc == "raise":
            self._failed(rec)
            raise BetdaqError("injected")
        out = []
        applied = []
        for oid in order_ids:
            c = self.cancel(oid)
            if c is not None:
                applied.append(oid)
            if c is not None and oid not in (plan.get("missing_ids") or []):
                out.append({"order_id": oid, "size_cancelled": c, "customer_reference": self.orders[oid]["ref"]})
        rec["answer"] = {"codes": {}, "reported_ids": [r["order_id"] for r in out] if oc == "answer" else [], "applied_ids": applied}
        if self.on_call:
            self.on_call(rec)
        if oc == "raise_applied":
            raise BetdaqError("injected after the exchange applied the request")
        return out

    def update_orders(self, order_list, **kw):
        plan, rec = self._enter("UPDATE", len(order_list))
        oc = plan.get("oc", "answer")
        if oc == "raise":
            self._failed(rec)
            raise BetdaqError("injected")
        out = []
        applied = []
        for ins in order_list:
            oid = ins["BetId"]
            o = self.orders.get(oid)
            code = (plan.get("codes_by_id") or {}).get(oid, 0)
            if o is None or o["status"] != "Unmatched":
                code = code or 136           # the order can no longer be changed
            if code == 0 or (oc == "raise_applied" and o is not None and o["status"] == "Unmatched"):
                o["price"] = float(ins["Price"])
                self._bump(o)
                applied.append(oid)
            out.append({"order_id": oid, "return_code": code})
        rec["answer"] = {"codes_by_id": {r["order_id"]: r["return_code"] for r in out} if oc == "answer" else {}, "applied_ids": applied}
        if self.on_call:
            self.on_call(rec)
        if oc == "raise_applied":
            raise BetdaqError("injected after the exchange applied the request")
        return out

    def entry(self, o):
        return {"order_id": o["id"], "commission_information": {}, "runner_id": o["runner"], "market_id": 1, "sequence_number": o["seq"], "status": o["status"],
                "side": "BACK" if o["polarity"] == 1 else "LAY", "sent_time": None, "price": o["price"], "remaining_size": o["rem"], "average_price": o["price"] if o["m"] else 0.0,
                "matched_price": o["price"] if o["m"] else 0.0, "matched_size": o["m"], "matched_lay_size": 0.0, "customer_reference": o["ref"]}

    def changed_since(self, seq):
        return [self.entry(o) for o in sorted(self.orders.values(), key=lambda x: x["seq"]) if o["seq"] > seq]


class BdqStrategy(BaseStrategy):
    def check_market_book(self, market, market_book):
        return True


class BdqRun:
    def __init__(self, scn):
        self.scn = scn
        self.x = BdqExchange()
        self.steps, self.trans, self.reqs, self.errors = [], [], [], []
        self.orders = collections.OrderedDict()
        self.olabel = {}
        self.patches = Patches()
        self.hq = []               # polled lists waiting for the main loop
        self.polled = 0
        self.wire = []             # the call the exchange has answered and whose response is not yet handled
        self.client = clients.BetdaqClient(self.x)
        self.fl = Flumine(self.client)
        self.pool = DetPool()
        self.fl.betdaq_execution._thread_pool.shutdown(wait=False)
        self.fl.betdaq_execution._thread_pool = self.pool
        self.strategy = BdqStrategy(market_filter={"marketIds": ["1.1"]}, name="A", max_live_trade_count=1000, max_trade_count=10 ** 6,
                                    max_order_exposure=10 ** 6, max_selection_exposure=10 ** 7)
        self.fl.add_strategy(self.strategy)
        self.market = self.fl._add_market("1.1", self.book("1.1"))

    def book(self, mid):
        md = {"bspMarket": False, "turnInPlayEnabled": True, "persistenceEnabled": True, "marketBaseRate": 5.0, "eventId": "30000001", "eventTypeId": "7",
              "numberOfWinners": 1, "bettingType": "ODDS", "marketType": "WIN", "marketTime": "2023-11-14T23:00:00.000Z", "suspendTime": "2023-11-14T23:00:00.000Z",
              "bspReconciled": False, "complete": True, "inPlay": False, "crossMatching": False, "runnersVoidable": False, "numberOfActiveRunners": 2, "betDelay": 0,
              "status": "OPEN", "runners": [{"status": "ACTIVE", "sortPriority": i + 1, "id": 11 + i} for i in range(2)],
              "regulators": ["MR_INT"], "countryCode": "GB", "discountAllowed": True, "timezone": "Europe/London", "openDate": "2023-11-14T20:00:00.000Z", "version": 1}
        pt = int(time.time() * 1000)
        cache = MarketBookCache(mid, pt, False, False, False)
        cache.update_cache({"id": mid, "marketDefinition": md, "rc": [{"id": 11, "atb": [[2.0, 10]], "atl": [[2.2, 10]]}, {"id": 12, "atb": [[3.0, 10]], "atl": [[3.2, 10]]}]}, pt, active=True)
        return cache.create_resource(1, snap=True)

    def label_order(self, order, label=None):
        k = id(order)
        if k not in self.olabel:
            self.olabel[k] = label or ("x%d" % (len(self.orders) + 1))
            self.orders[self.olabel[k]] = order
        return self.olabel[k]

    def lab_of_ref(self, ref):
        for l, o in self.orders.items():
            if int(o.id) == ref:
                return l
        return "?%s" % ref

    # --- projection (shape of Betdaq.tla's state)
    def proj_order(self, o):
        bl = self.market.blotter
        co = o.responses.current_order or {}
        return {"status": STATUS_NAME[o.status], "bet": o.bet_id is not None, "m": pence(o.size_matched or 0), "rem": pence(o.size_remaining if o.size_remaining is not None else 0),
                "seq": co.get("sequence_number") if co.get("sequence_number") is not None else -1, "live": any(x is o for x in bl._live_orders),
                "price": pence(o.order_type.price), "newp": pence(o.update_data.get("Price") or 0), "size": pence(o.order_type.size),
                "inbl": o.id in bl and bl[o.id] is o, "nlog": len(o.status_log)}

    def proj(self):
        xl = {}
        for xo in self.x.orders.values():
            xl[self.lab_of_ref(xo["ref"])] = {"status": xo["status"], "m": pence(xo["m"]), "rem": pence(xo["rem"]), "seq": xo["seq"], "price": pence(xo["price"])}
        return {"ord": {l: self.proj_order(o) for l, o in self.orders.items()}, "x": xl, "xseq": self.x.seq,
                "pool": [{"kind": KIND_NAME[a[0].package_type], "orders": [self.label_order(o) for o in a[0]._orders]} for (fn, a, kw) in self.pool.thunks],
                "wire": list(self.wire),
                "hq": [[{"o": self.lab_of_ref(c["customer_reference"]), "status": c["status"], "m": pence(c["matched_size"]), "rem": pence(c["remaining_size"]),
                         "seq": c["sequence_number"], "price": pence(c["price"])} for c in lst] for lst in self.hq],
                "polled": self.polled}

    def step(self, ev, **a):
        s = {"ev": ev, "a": a, "st": self.proj(), "trans": self.trans, "reqs": self.reqs}
        self.trans, self.reqs = [], []
        self.steps.append(s)
        return s

    def instrument(self):
        rec = self

        def mk_update_status(orig):
            def _update_status(self_, status):
                prev = self_.status
                lab = rec.label_order(self_)
                caller = sys._getframe(2).f_code.co_name
                orig(self_, status)
                rec.trans.append([lab, STATUS_NAME[prev], STATUS_NAME[status], caller, 0])
            return _update_status
        self.patches.wrap(BaseOrder, "_update_status", mk_update_status)

    # --- steps
    def requests(self, s):
        def one(t, a):
            q = {"kind": a["op"].upper(), "o": a["o"], "r": "NOORDER", "price": pence(a.get("price", 0)), "size": pence(a.get("size", 0))}
            order = self.orders.get(a["o"])
            try:
                if a["op"] == "place":
                    if order is None:
                        trade = Trade("1.1", a.get("sel", 11), 0, self.strategy)
                        order = trade.create_betdaq_order(a.get("side", "BACK"), BetdaqLimitOrder(price=a["price"], size=a["size"], betdaq_runner_id=4242, runner_reset_count=0, withdrawal_sequence_number=0))
                        self.label_order(order, a["o"])
                        q["before"] = {"status": "NONE"}
                    else:
                        q["before"] = self.proj_order(order)
                    r = t.place_order(order)
                elif order is None:
                    self.reqs.append(q)
                    return
                else:
                    q["before"] = self.proj_order(order)
                    r = t.cancel_order(order) if a["op"] == "cancel" else t.update_order(order, new_price=a["price"])
                q["r"] = "ACCEPT" if r else "REFUSE"
            except (OrderUpdateError, OrderError):
                q["r"] = "ERROR"
            q["after"] = self.proj_order(order)
            self.reqs.append(q)
        if s.get("txn"):
            with self.market.transaction(client=self.client) as t:
                for a in s["actions"]:
                    one(t, a)
        else:
            for a in s["actions"]:
                with self.market.transaction(client=self.client) as t:
                    one(t, a)
        self.step("req", txn=bool(s.get("txn")))

    def lab_of_id(self, oid):
        for xo in self.x.orders.values():
            if xo["id"] == oid:
                return self.lab_of_ref(xo["ref"])
        return "?%s" % oid

    def run_thunk(self, s):
        """the head of the execution queue: `call` (recorded inside the double, after the exchange applied the request),
        the steps listed under "during" (main thread, while the answer travels), `resp` (BetdaqExecution handles it);
        `nobuild` when the request could not be built and nothing was sent"""
        if not self.pool.thunks or self.wire:
            return
        fn, args, kw = self.pool.thunks.pop(0)
        pkg = args[0]
        labs = [self.label_order(o) for o in pkg._orders]
        kind = KIND_NAME[pkg.package_type]
        oc = s.get("oc", "answer")
        codes = {l: int((s.get("codes") or {}).get(l, 0)) for l in labs}
        missing = [l for l in (s.get("missing") or []) if l in labs]
        sent = [l for l in labs if self.orders[l].status.value != "Violation"]
        self.x.plan = {"oc": oc, "codes": {str(int(self.orders[l].id)): c for l, c in codes.items()},
                       "codes_by_id": {self.orders[l].bet_id: c for l, c in codes.items() if self.orders[l].bet_id is not None},
                       "missing_ids": [self.orders[l].bet_id for l in missing]}
        called = []

        def on_call(rec):
            ans = rec.get("answer") or {}
            by_ref = {str(int(self.orders[l].id)): l for l in sent}
            wcodes = {l: 0 for l in sent}
            if kind == "PLACE":
                wcodes.update({by_ref[r]: c for r, c in (ans.get("codes") or {}).items() if r in by_ref})
                applied = [by_ref[r] for r in ans.get("applied", []) if r in by_ref]
            else:
                wcodes.update({self.lab_of_id(i): c for i, c in (ans.get("codes_by_id") or {}).items()})
                applied = [self.lab_of_id(i) for i in ans.get("applied_ids", [])]
            reported = [self.lab_of_id(i) for i in ans.get("reported_ids", [])]
            self.wire = [{"kind": kind, "orders": sent, "oc": oc, "codes": {l: wcodes[l] for l in sent}, "reported": [l for l in sent if l in reported],
                          "applied": [l for l in sent if l in applied]}]
            called.append(1)
            self.step("call", kind=kind, oc=oc, codes={l: codes[l] for l in sent}, missing=[l for l in missing if l in sent])
            for sub in s.get("during") or []:
                self.do(sub)
        self.x.on_call = on_call
        err = ""
        try:
            fn(*args, **kw)
        except Exception as e:   # an exception escaping the handler would kill the pool thread's task silently
            err = "%s: %s" % (type(e).__name__, str(e)[:100])
            self.errors.append(err)
        self.x.plan = None
        self.x.on_call = None
        self.wire = []
        self.step("resp" if called else "nobuild", kind=kind, orders=labs, err=err, n=0)

    def do(self, s):
        op = s["op"]
        if op in ("req", "reqtxn"):
            self.requests(dict(s, txn=(op == "reqtxn") or s.get("txn")))
        elif op == "run":
            self.run_thunk(s)
        elif op in ("xfill", "xcancel"):
            o = self.orders.get(s["o"])
            oid = o.bet_id if o is not None and o.bet_id is not None else next((xo["id"] for xo in self.x.orders.values() if o is not None and xo["ref"] == int(o.id)), None)
            if op == "xfill":
                self.x.fill(oid, s.get("amount", 1.0))
                self.step("xfill", o=s["o"], amount=pence(s.get("amount", 1.0)))
            else:
                self.x.cancel(oid)
                self.step("xcancel", o=s["o"])
        elif op == "snap":
            diff = self.x.changed_since(self.polled)
            if diff:        # (an empty list is queued only while orders are live, and changes nothing)
                self.hq.append(diff)
                self.polled = max(c["sequence_number"] for c in diff)
            self.step("snap", n=len(diff))
        elif op == "proc":
            if self.hq:
                lst = self.hq.pop(0)
                try:
                    self.fl._process_current_orders(fevents.CurrentOrdersEvent(lst, exchange=ExchangeType.BETDAQ))
                except Exception as e:
                    self.errors.append("escaped _process_current_orders %s: %s" % (type(e).__name__, str(e)[:100]))
                self.step("proc", n=len(lst))
            else:
                self.step("proc", n=0)

    def run(self):
        self.instrument()
        try:
            self.step("init")
            for s in self.scn["steps"]:
                self.do(s)
        finally:
            self.patches.restore()
        return {"id": self.scn["id"], "steps": self.steps, "errors": self.errors, "calls": self.x.calls}


def run_bdq(scn):
    return BdqRun(scn).run()
