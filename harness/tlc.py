"""TLC runner and output parser (E1 design checks and E3 trace validation)."""
import os
import re
import json
import time
import shutil
import subprocess
import tempfile

ROOT = os.path.dirname(os.path.dirname(os.path.abspath(__file__)))
SPEC = os.path.join(ROOT, "spec")
WORK = os.environ.get("VERIF_WORK") or os.path.join(ROOT, ".work")
JAR = "/opt/veriftools/tla/tla2tools.jar:/opt/veriftools/tla/CommunityModules-deps.jar"


class MachineryError(Exception):
    pass


def workdir(prefix="w"):
    os.makedirs(WORK, exist_ok=True)
    return tempfile.mkdtemp(prefix=prefix + "_", dir=WORK)


def write_cfg(path, init="Init", next_="Next", constants=None, invariants=(), properties=(), constraint=None,
              view=None, deadlock=False, spec=None, postcondition=None, symmetry=None):
    lines = []
    if spec:
        lines.append("SPECIFICATION %s" % spec)
    else:
        lines += ["INIT %s" % init, "NEXT %s" % next_]
    if constants:
        lines.append("CONSTANTS")
        for k, v in constants.items():
            lines.append("    %s = %s" % (k, v) if not str(v).startswith("<-") else "    %s %s" % (k, v))
    for i in invariants:
        lines.append("INVARIANT %s" % i)
    for p in properties:
        lines.append("PROPERTY %s" % p)
    if constraint:
        lines.append("CONSTRAINT %s" % constraint)
    if view:
        lines.append("VIEW %s" % view)
    if symmetry:
        lines.append("SYMMETRY %s" % symmetry)
    if postcondition:
        lines.append("POSTCONDITION %s" % postcondition)
    lines.append("CHECK_DEADLOCK %s" % ("TRUE" if deadlock else "FALSE"))
    with open(path, "w") as f:
        f.write("\n".join(lines) + "\n")


_STATS = re.compile(r"(\d+) states generated, (\d+) distinct states found, (\d+) states left on queue")
_DEPTH = re.compile(r"The depth of the complete state graph search is (\d+)")
_INV = re.compile(r"Error: Invariant (\S+) is violated")
_PROP = re.compile(r"Error: (?:Action property|Temporal properties?) (\S*)")


def run_tlc(module, cfg, cwd, workers=8, timeout=600, env=None, extra=(), heap="4g", coverage=False, simulate=None, depth=None, seed=None, dfs=False):
    """Run TLC on <module>.tla (in cwd, spec dir is on the module search path via copying)."""
    meta = os.path.join(cwd, "meta_%d" % int(time.time() * 1000))
    cmd = ["java", "-XX:+UseParallelGC", "-Xmx" + heap, "-Xss16m"]
    if dfs:
        cmd.append("-Dtlc2.tool.queue.IStateQueue=StateDeque")
    cmd += ["-DTLA-Library=" + SPEC, "-cp", JAR, "tlc2.TLC", "-workers", str(workers), "-metadir", meta, "-noGenerateSpecTE", "-config", cfg]
    if coverage:
        cmd += ["-coverage", "1"]
    if simulate:
        cmd += ["-simulate", simulate]
    if depth:
        cmd += ["-depth", str(depth)]
    if seed is not None:
        cmd += ["-seed", str(seed)]
    cmd += list(extra) + [module]
    e = dict(os.environ)
    if env:
        e.update(env)
    t0 = time.time()
    try:
        p = subprocess.run(cmd, cwd=cwd, env=e, stdout=subprocess.PIPE, stderr=subprocess.STDOUT, timeout=timeout, text=True)
        out, rc, timed_out = p.stdout, p.returncode, False
    except subprocess.TimeoutExpired as ex:
        out = ex.stdout if isinstance(ex.stdout, str) else (ex.stdout or b"").decode("utf8", "replace")
        rc, timed_out = -9, True
    shutil.rmtree(meta, ignore_errors=True)
    res = {"out": out, "rc": rc, "timed_out": timed_out, "wall_s": time.time() - t0, "cmd": " ".join(cmd)}
    m = None
    for m in _STATS.finditer(out):
        pass
    if m:
        res["generated"], res["distinct"], res["queue"] = int(m.group(1)), int(m.group(2)), int(m.group(3))
    d = _DEPTH.search(out)
    if d:
        res["depth"] = int(d.group(1))
    res["invariant_violated"] = _INV.findall(out)
    res["property_violated"] = _PROP.findall(out)
    res["errors"] = [l for l in out.splitlines() if l.startswith("Error:") or "Exception" in l and "at tlc2" not in l]
    res["finished"] = "Model checking completed" in out or "Finished in" in out
    return res


# ---------------------------------------------------------------------------------------
# parsing of TLA+ values printed by PrintT (bracket matching; robust to interleaving by line)
# ---------------------------------------------------------------------------------------
class _P:
    def __init__(self, s):
        self.s = s
        self.i = 0

    def ws(self):
        while self.i < len(self.s) and self.s[self.i] in " \n\t\r":
            self.i += 1

    def peek(self, k=1):
        return self.s[self.i:self.i + k]

    def value(self):
        self.ws()
        s = self.s
        if self.peek(2) == "<<":
            self.i += 2
            items = self.items(">>")
            return items
        if self.peek(1) == "{":
            self.i += 1
            items = self.items("}")
            return {"__set__": items}
        if self.peek(1) == "[":
            self.i += 1
            return self.record()
        if self.peek(1) == "(":
            self.i += 1
            return self.function()
        if self.peek(1) == '"':
            j = self.i + 1
            out = []
            while s[j] != '"':
                if s[j] == "\\":
                    j += 1
                out.append(s[j])
                j += 1
            self.i = j + 1
            return "".join(out)
        m = re.match(r"-?\d+", s[self.i:])
        if m:
            self.i += len(m.group(0))
            return int(m.group(0))
        m = re.match(r"[A-Za-z_][A-Za-z0-9_]*", s[self.i:])
        if m:
            self.i += len(m.group(0))
            w = m.group(0)
            return True if w == "TRUE" else False if w == "FALSE" else w
        raise ValueError("cannot parse TLA value at %r" % s[self.i:self.i + 40])

    def items(self, close):
        out = []
        self.ws()
        if self.peek(len(close)) == close:
            self.i += len(close)
            return out
        while True:
            out.append(self.value())
            self.ws()
            if self.peek(1) == ",":
                self.i += 1
                continue
            if self.peek(len(close)) == close:
                self.i += len(close)
                return out
            raise ValueError("expected , or %s at %r" % (close, self.s[self.i:self.i + 40]))

    def record(self):
        out = {}
        self.ws()
        if self.peek(1) == "]":
            self.i += 1
            return out
        while True:
            self.ws()
            # TLC prints a function over strings as a record whatever the strings look like ("11", "1.100000001", "A|1.1|11")
            m = re.match(r"[^\s\[\]<>{}(),\"]+?(?=\s*\|->)", self.s[self.i:])
            if not m:
                raise ValueError("bad record key at %r" % self.s[self.i:self.i + 40])
            k = m.group(0)
            self.i += len(k)
            self.ws()
            assert self.peek(3) == "|->", self.s[self.i:self.i + 20]
            self.i += 3
            out[k] = self.value()
            self.ws()
            if self.peek(1) == ",":
                self.i += 1
                continue
            if self.peek(1) == "]":
                self.i += 1
                return out
            raise ValueError("bad record at %r" % self.s[self.i:self.i + 40])

    def function(self):
        # (k :> v @@ k :> v)
        out = {}
        while True:
            k = self.value()
            self.ws()
            assert self.peek(2) == ":>", self.s[self.i:self.i + 20]
            self.i += 2
            v = self.value()
            out[k if isinstance(k, (str, int)) else json.dumps(k)] = v
            self.ws()
            if self.peek(2) == "@@":
                self.i += 2
                continue
            if self.peek(1) == ")":
                self.i += 1
                return out
            raise ValueError("bad function at %r" % self.s[self.i:self.i + 40])


def parse_value(s):
    return _P(s).value()


def printed_tuples(out, tags=("VIOL", "DRIFT", "INFO")):
    """All <<"TAG", ...>> tuples printed by PrintT, parsed."""
    res = []
    i = 0
    pat = re.compile(r'<<\s*"(%s)"' % "|".join(tags))
    while True:
        m = pat.search(out, i)
        if not m:
            break
        p = _P(out)
        p.i = m.start()
        try:
            v = p.value()
            res.append(v)
            i = p.i
        except Exception as ex:
            # never drop a verdict: keep the header fields and the raw text of what could not be parsed
            raw = out[m.start():m.start() + 1500]
            head = re.match(r'<<\s*"(\w+)"\s*,\s*"([^"]*)"\s*,\s*"([^"]*)"\s*,\s*(?:"([^"]*)"\s*,\s*)?(-?\d+)?', raw)
            if head and head.group(1) == "VIOL":
                res.append(["VIOL", head.group(2), head.group(3), head.group(4) or "?", int(head.group(5) or -1), {"unparsed": raw[:600], "parse_error": str(ex)[:200]}])
            elif head and head.group(1) == "DRIFT":
                res.append(["DRIFT", head.group(2), head.group(3), int(head.group(5) or -1) if head.group(4) is None else head.group(4), {"unparsed": raw[:600]}])
            else:
                res.append([m.group(1), "?", "unparsed", "?", -1, {"unparsed": raw[:600], "parse_error": str(ex)[:200]}])
            i = m.end()
    return res


# ---------------------------------------------------------------------------------------
# trace validation
# ---------------------------------------------------------------------------------------
def _nonull(x):
    """TLC's JSON reader has no null: None becomes the empty string"""
    if x is None:
        return ""
    if isinstance(x, dict):
        return {k: _nonull(v) for k, v in x.items()}
    if isinstance(x, (list, tuple)):
        return [_nonull(v) for v in x]
    return x


def validate_traces(traces, module, props, workers=8, timeout=900, extra_constants=None, wd=None, batch=None, heap="8g", max_steps=25000):
    """Validate a list of JSON-able traces with the trace spec <module> (a module of spec/ that
    reads IOEnv.TRACE_FILE and has constants Props).  Returns dict(viol=[...], drift=[...],
    states=..., expected_states=..., ok_consumed=bool)."""
    own = wd is None
    wd = wd or workdir("tv")
    out_all = {"viol": [], "drift": [], "states": 0, "expected_states": 0, "wall_s": 0.0, "runs": 0, "errors": []}
    batch = batch or len(traces) or 1
    try:
        # batches are bounded by the number of traces and by the number of steps (TLC's JSON reader and heap)
        bounds, start, acc = [], 0, 0
        for i, t in enumerate(traces):
            n = len(t["steps"])
            if i > start and (i - start >= batch or acc + n > max_steps):
                bounds.append((start, i))
                start, acc = i, 0
            acc += n
        bounds.append((start, len(traces)))
        for b0, b1 in bounds:
            chunk = traces[b0:b1]
            if not chunk:
                continue
            tf = os.path.join(wd, "traces_%d.json" % b0)
            with open(tf, "w") as f:
                json.dump(_nonull(chunk), f)
            cfg = os.path.join(wd, "%s_%d.cfg" % (module, b0))
            consts = {"Props": "{" + ", ".join('"%s"' % p for p in sorted(props)) + "}"}
            if extra_constants:
                consts.update(extra_constants)
            write_cfg(cfg, constants=consts)
            r = run_tlc(os.path.join(SPEC, module + ".tla"), cfg, wd, workers=workers, timeout=timeout, env={"TRACE_FILE": tf}, heap=heap)
            out_all["runs"] += 1
            out_all["wall_s"] += r["wall_s"]
            exp = sum(len(t["steps"]) for t in chunk)
            out_all["expected_states"] += exp
            out_all["states"] += r.get("distinct", 0)
            if r["timed_out"] or not r["finished"] or r.get("distinct") != exp:
                # keep the whole TLC output of a failed run where it can be read afterwards
                logp = os.path.join(ROOT, "replays", "tlc_failure_%s_%d_%d.log" % (module, os.getpid(), b0))
                try:
                    os.makedirs(os.path.dirname(logp), exist_ok=True)
                    with open(logp, "w") as lf:
                        lf.write(r["out"])
                except OSError:
                    logp = ""
                msgs = [l for l in r["out"].splitlines() if re.search(r"Error|rror:|xception|was not in the domain|attempted|Killed|OutOfMemory", l)][:12]
                out_all["errors"].append({"batch": b0, "timed_out": r["timed_out"], "distinct": r.get("distinct"), "expected": exp, "rc": r.get("rc"), "messages": msgs, "log": logp, "tail": r["out"][-1500:]})
            for v in printed_tuples(r["out"]):
                if v[0] == "VIOL":
                    out_all["viol"].append({"prop": v[1], "name": v[2], "trace": v[3], "step": v[4], "detail": v[5] if len(v) > 5 else None})
                elif v[0] == "DRIFT":
                    out_all["drift"].append({"name": v[1], "trace": v[2], "step": v[3], "detail": v[4] if len(v) > 4 else None})
            os.remove(tf)
    finally:
        if own:
            shutil.rmtree(wd, ignore_errors=True)
    return out_all
