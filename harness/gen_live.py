"""Seeded random live-mode scenarios (sequences of handler-granularity steps) incl. fault plans."""
import random

PLACE_OUT = ["SUCCESS"] * 6 + ["FAILURE:ERROR_IN_ORDER", "FAILURE:INSUFFICIENT_FUNDS", "TIMEOUT", "TIMEOUT:PLACED", "SUCCESS:EXPIRED"]
# BET_TAKEN_OR_LAPSED is only ever reported by the double itself, when the bet really is complete
CANCEL_OUT = ["SUCCESS"] * 5 + ["FAILURE:MARKET_SUSPENDED", "FAILURE:BET_ACTION_ERROR", "TIMEOUT"]
UPDATE_OUT = ["SUCCESS"] * 4 + ["FAILURE:BET_ACTION_ERROR", "TIMEOUT"]
REPLACE_OUT = ["SUCCESS/SUCCESS"] * 5 + ["SUCCESS/FAILURE:ERROR_IN_ORDER", "FAILURE:MARKET_SUSPENDED/SUCCESS", "TIMEOUT/SUCCESS", "SUCCESS/TIMEOUT"]


def plan_for(rnd, p_fault=0.35):
    plan = {}
    if rnd.random() < p_fault:
        x = rnd.random()
        if x < 0.35:
            plan["raise"] = True
            plan["apply"] = rnd.random() < 0.4     # the exchange applied it although the call failed
        else:
            plan["reports_any"] = True
    if rnd.random() < 0.2:
        plan["during"] = "snapshot"
    return plan


def fill_reports(rnd, plan, kind, n):
    if plan.pop("reports_any", None):
        pool = {"PLACE": PLACE_OUT, "CANCEL": CANCEL_OUT, "UPDATE": UPDATE_OUT, "REPLACE": REPLACE_OUT}[kind]
        plan["reports"] = [rnd.choice(pool) for _ in range(n)]
        if kind == "CANCEL" and rnd.random() < 0.5:
            perm = list(range(n))
            rnd.shuffle(perm)
            if rnd.random() < 0.4 and n > 1:
                perm = perm[:-1]
            plan["perm"] = perm
    return plan


def scenario(seed, sid, n_steps=30, p_fault=0.35, restart=False, async_p=0.15, two_strategies=False, unknown_bets=False):
    rnd = random.Random(seed)
    # a separate stream decides about line markets (one selection on several handicaps), so that the scenarios of
    # the other seeds stay what they were
    rnd_hc = random.Random(seed * 7919 + 13)
    lines = rnd_hc.random() < 0.25
    steps = [{"op": "book", "mid": "1.1"}]
    names = ["A", "B"] if two_strategies else ["A"]
    orders = []   # (label, strat)
    n = 0
    pool_kinds = []   # kinds of the packages we believe are pending (approximation for choosing reports)
    for k in range(n_steps):
        x = rnd.random()
        if x < 0.28 or not orders:
            acts = []
            strat = rnd.choice(names)
            for _ in range(rnd.choice([1, 1, 2, 3])):
                n += 1
                lab = "%so%d" % (strat.lower(), n)
                a = {"op": "place", "o": lab, "sel": rnd.choice([11, 12]), "side": rnd.choice(["BACK", "LAY"]), "price": rnd.choice([2.0, 2.2, 3.0]), "size": rnd.choice([2.0, 5.0, 3.0])}
                if lines and rnd_hc.random() < 0.6:
                    a["hc"] = rnd_hc.choice([-0.5, 1.5])
                z = rnd.random()
                if z < 0.08:        # starting-price orders: size = liability
                    a["type"] = "LIMIT_ON_CLOSE"
                    a["size"] = rnd.choice([10.0, 13.0, 20.0])
                elif z < 0.14:
                    a["type"] = "MARKET_ON_CLOSE"
                    a["size"] = rnd.choice([10.0, 13.0])
                if rnd.random() < 0.3 and orders:
                    a["t"] = "t_" + rnd.choice(orders)[0]
                if rnd.random() < async_p:
                    a["async"] = True
                acts.append(a)
                orders.append((lab, strat))
            steps.append({"op": "req", "strat": strat, "actions": acts})
        elif x < 0.45:
            lab, strat = rnd.choice(orders)
            op = rnd.choice(["cancel", "cancel", "update", "replace", "replace"])
            a = {"op": op, "o": lab}
            if op == "cancel" and rnd.random() < 0.4:
                a["reduction"] = rnd.choice([1.0, 2.0, 0.5])
            if op == "replace":
                a["price"] = rnd.choice([2.02, 2.4, 3.5])
                if rnd.random() < 0.5:
                    orders.append((lab + ".r1", strat))
            acts = [a]
            if rnd.random() < 0.3:
                lab2, _ = rnd.choice(orders)
                acts.append({"op": op, "o": lab2, "price": 2.6} if op == "replace" else {"op": op, "o": lab2})
            steps.append({"op": "req", "strat": strat, "actions": acts})
        elif x < 0.70:
            plan = plan_for(rnd, p_fault)
            plan["reports_any"] = plan.get("reports_any", False)
            steps.append({"op": "run", "i": rnd.choice([0, 0, 1, 2]), "plan": plan, "_fill": True})
        elif x < 0.80:
            lab, _ = rnd.choice(orders)
            steps.append({"op": rnd.choice(["fill", "fill", "lapse"]), "o": lab, "amount": rnd.choice([1.0, 2.0, 5.0])})
        elif x < 0.88:
            steps.append({"op": "snap"})
        elif x < 0.97:
            steps.append({"op": "proc", "i": rnd.choice([-1, -1, -1, 0, -2])})
        else:
            steps.append({"op": "book", "mid": "1.1", "k": k})
    # drain: run everything that is pending without faults, then a fresh snapshot -> quiescent point
    for _ in range(12):
        steps.append({"op": "run", "i": 0, "plan": {}})
    steps += [{"op": "snap"}, {"op": "proc", "i": -1}]
    if rnd.random() < 0.5:
        steps.append({"op": "close", "mid": "1.1"})
        if rnd.random() < 0.4:
            steps.append({"op": "close", "mid": "1.1"})      # streams repeat CLOSED books
        if rnd.random() < 0.3:
            steps += [{"op": "book", "mid": "1.1", "k": 99}, {"op": "close", "mid": "1.1"}]   # data again, then closed again
        if rnd.random() < 0.3:
            # a bet of an earlier incarnation of strategy A on the market that has just closed (the framework still holds
            # the market): the order stream reports it and it is adopted into that market
            steps += [{"op": "foreign", "mid": "1.1", "sel": 11, "known": True}, {"op": "snap"}, {"op": "proc", "i": -1}, {"op": "snap"}, {"op": "proc", "i": -1}]
        if rnd.random() < 0.5:
            # recorder mode: the closure worker has marked the market cleared, then raw dict updates arrive for it
            # (prices only / a definition), then it closes again through a raw CLOSED definition
            steps += [{"op": "cleared", "mid": "1.1"}, {"op": "raw", "mid": "1.1", "kind": rnd.choice(["prices", "prices", "def_open", "def_suspended"])}]
            if rnd.random() < 0.6:
                steps += [{"op": "raw", "mid": "1.1", "kind": "def_closed"}]
                if rnd.random() < 0.5:
                    steps += [{"op": "cleared", "mid": "1.1"}, {"op": "raw", "mid": "1.1", "kind": "prices", "k": 1}]
        if rnd.random() < 0.6:
            # the hour rule: time passes, the market re-opens and closes again, a second market closes later
            steps += [{"op": "advance", "seconds": rnd.choice([600, 3000, 3500, 3700, 5000])}]
            if rnd.random() < 0.6:
                steps += [{"op": "book", "mid": "1.1", "k": 98}, {"op": "advance", "seconds": rnd.choice([60, 1200, 3000])}, {"op": "close", "mid": "1.1"}]
            steps += [{"op": "book", "mid": "1.2", "k": 1}, {"op": "close", "mid": "1.2"}]
            if rnd.random() < 0.7:
                steps += [{"op": "advance", "seconds": rnd.choice([1000, 3800, 4000])}, {"op": "book", "mid": "1.2", "k": 2}, {"op": "close", "mid": "1.2"}]
    if rnd.random() < 0.35:
        # bets of another program / of a strategy that is not configured, some on a market this instance never saw
        steps.insert(rnd.randrange(1, len(steps)), {"op": "foreign", "mid": rnd.choice(["1.1", "1.3"]), "sel": rnd.choice([11, 12])})
        steps += [{"op": "snap"}, {"op": "proc", "i": -1}]
    if lines and restart and rnd_hc.random() < 0.5:
        # a bet of an earlier incarnation of strategy A on a line of the market
        steps += [{"op": "foreign", "mid": "1.1", "sel": 11, "hc": rnd_hc.choice([-0.5, 1.5]), "known": True}, {"op": "snap"}, {"op": "proc", "i": -1}]
    if restart:
        r = {"op": "restart"}
        if two_strategies and rnd.random() < 0.5:
            r["strategies"] = ["A"]          # the restarted program no longer runs B: its bets are foreign now
        steps.append(r)
    return {"id": sid, "strategies": [{"name": nm} for nm in names], "steps": steps, "seed": seed}
