"""Scenarios over the recorded Betfair stream files shipped with the repository's tests
(tests/resources): the real FlumineSimulation replays real market data, reactive seeded strategies
(harness/simdrv.Reactive) trade on it, and the recorded trace is validated like any other."""
import os
import json
import gzip

RES = "tests/resources"
FILES = {
    "win6": "1.197931750",          # WIN, 6 runners, SP reconciled, 166 updates
    "place6": "1.197931751",        # same event (event group with win6)
    "basic14": "BASIC-1.132153978", # WIN, 14 runners, 2 removals, in-play, SP; price-only data
    "mo2": "1.200806927",           # MATCH_ODDS, 18.5k updates, in-play
    "self": "SELF-1.181223995",     # 21.9k updates
}


def repo_root():
    import flumine
    return os.path.dirname(os.path.dirname(os.path.abspath(flumine.__file__)))


def describe(path):
    opener = gzip.open if path.endswith(".gz") else open
    first_pt, mid, mtype, n = None, None, None, 0
    with opener(path, "rt") as f:
        for line in f:
            d = json.loads(line)
            if first_pt is None:
                first_pt = int(d["pt"])
            for mc in d.get("mc", []):
                n += 1
                mid = mid or mc.get("id")
                md = mc.get("marketDefinition")
                if md and mtype is None:
                    mtype = md.get("marketType")
    return {"t0": first_pt, "id": mid, "market_type": mtype or "NA", "n": n}


def scenario(keys, sid, seed, n_strats=2, p_action=0.08, max_orders=14, cfg=None, listener_kwargs=None, event_processing=False, max_lines=None):
    root = repo_root()
    markets, t0 = [], None
    for k in keys:
        path = os.path.join(root, RES, FILES[k])
        if not os.path.exists(path) or os.path.getsize(path) == 0:
            continue
        d = describe(path)
        t0 = d["t0"] if t0 is None else min(t0, d["t0"])
        m = {"id": d["id"], "file": path, "market_type": d["market_type"], "updates": [None] * min(d["n"], max_lines or d["n"]), "winners": 1}
        if max_lines:
            m["max_lines"] = max_lines
        markets.append(m)
    c = {"isolation": True, "bpe": True, "event_processing": event_processing}
    if listener_kwargs:
        c["listener_kwargs"] = listener_kwargs
    c.update(cfg or {})
    strategies = [{"name": n, "multi_order_trades": True, "max_live_trade_count": 1000,
                   "reactive": {"seed": seed, "p_action": p_action, "max_orders": max_orders}} for n in ["A", "B", "C"][:n_strats]]
    return {"id": sid, "t0": t0 - 1000, "cfg": c, "markets": markets, "strategies": strategies}
