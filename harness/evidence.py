"""Evidence files (schema: /root/.vp/EVIDENCE.schema.json)."""
import os
import json
import time

ROOT = os.path.dirname(os.path.dirname(os.path.abspath(__file__)))


def write(prop, tier, seed, coverage, assumptions, wall_s, violations, level="model_checking"):
    os.makedirs(os.path.join(ROOT, "evidence"), exist_ok=True)
    doc = {
        "property_id": prop,
        "tier": tier,
        "seed": int(seed),
        "level": level,
        "coverage": coverage,
        "assumptions": assumptions,
        "wall_s": round(float(wall_s), 2),
        "violations": int(violations),
    }
    path = os.path.join(ROOT, "evidence", "%s.json" % prop)
    tmp = path + ".tmp"
    with open(tmp, "w") as f:
        json.dump(doc, f, indent=1, default=str)
    os.replace(tmp, path)
    return path
