"""Seeded random scenario generator for the simulation driver.

All amounts are 2-dp; traded increments are multiples of 0.02 so that the exchange's
"both sides reported" halving is exact in pence.  Knobs (profile dict) let each property's
check bias the distribution towards the behaviour it is about.
"""
import random
from .ladder import LADDER

DEFAULT_PROFILE = dict(
    n_markets=(1, 1),
    n_runners=(2, 3),
    n_updates=(6, 16),
    n_strategies=(1, 2),
    gaps=[1, 40, 119, 120, 121, 150, 151, 170, 171, 280, 281, 400, 1000, 5000],
    p_suspend=0.06,
    p_reopen=0.6,
    p_version_on_suspend=0.8,
    p_inplay=0.05,
    p_removal=0.04,
    p_trade=0.6,
    p_book_move=0.3,
    p_close=0.85,
    p_action=0.55,
    max_orders=8,
    sizes=[2.0, 2.0, 3.0, 4.0, 5.0, 0.5, 10.0, 2.36],
    p_fok=0.15,
    p_sp_order=0.12,
    p_moc_pers=0.12,
    p_persist=0.1,
    p_partial_cancel=0.4,
    p_force=0.04,
    p_txn=0.25,
    p_mver=0.15,
    p_replace=0.2,
    p_update=0.12,
    p_cancel=0.3,
    p_replace_dup=0.05,
    p_ctx_trade=0.1,
    p_multi_trade=0.25,
    p_limits=0.3,
    p_cooldown=0.15,
    event_processing=False,
    p_iso_off=0.15,
    p_bpe_off=0.15,
    p_full_match=0.05,
    latencies=None,
    bet_delays=[1, 1, 2, 5],
    p_raise=0.0,
    p_big_reduction=0.15,
    market_types=["WIN", "WIN", "WIN", "PLACE", "OTHER_PLACE", "EACH_WAY"],
    p_txlimit=0.0,
    p_explimits=0.0,
    p_two_clients=0.0,
    two_clients_unlimited=False,   # no transaction limits on the two clients (the limits are C18's business)
    discipline=False,
    center=(60, 140),
    p_cross=0.0,          # a callback for one market sends its requests to another market of the run
    shared_file=False,    # the markets come in one recorded file (every message re-delivers the last book of each)
)


def _r2(x):
    return round(x + 1e-9, 2)


class Gen:
    def __init__(self, seed, profile=None):
        self.rnd = random.Random(seed)
        self.p = dict(DEFAULT_PROFILE)
        if profile:
            self.p.update(profile)

    def ri(self, lo_hi):
        return self.rnd.randint(lo_hi[0], lo_hi[1])

    def chance(self, p):
        return self.rnd.random() < p

    # --- market history ---------------------------------------------------------------
    def book_for(self, center):
        """atb below the centre tick, atl above it (a few levels, occasionally empty sides/gaps)"""
        rnd = self.rnd
        atb, atl = [], []
        nb = rnd.choice([0, 1, 2, 3, 3])
        na = rnd.choice([0, 1, 2, 3, 3])
        i = center - 1
        for _ in range(nb):
            i -= rnd.choice([0, 0, 0, 1])
            if i < 0:
                break
            atb.append([LADDER[i] / 100.0, _r2(rnd.choice([1, 2, 3, 5, 8, 20]) * rnd.choice([1.0, 1.0, 0.5, 2.0]))])
            i -= 1
        i = center + 1
        for _ in range(na):
            i += rnd.choice([0, 0, 0, 1])
            if i >= len(LADDER):
                break
            atl.append([LADDER[i] / 100.0, _r2(rnd.choice([1, 2, 3, 5, 8, 20]) * rnd.choice([1.0, 1.0, 0.5, 2.0]))])
            i += 1
        return atb, atl

    def market(self, idx, event_id="30000001", t_start=0):
        p, rnd = self.p, self.rnd
        mid = "1.10000000%d" % (idx + 1)
        runners = [11 + i for i in range(self.ri(p["n_runners"]))]
        n = self.ri(p["n_updates"])
        mtype = rnd.choice(p["market_types"])
        m = {
            "id": mid,
            "event_id": event_id,
            "market_type": mtype,
            "winners": 1 if mtype in ("WIN",) else rnd.choice([1, 2]),
            "bsp": rnd.random() < 0.85,
            "persistence": rnd.random() < 0.9,
            "runners": runners,
            "updates": [],
        }
        if mtype == "EACH_WAY":
            m["each_way_divisor"] = rnd.choice([4.0, 5.0])
        centers = {r: self.ri(p["center"]) for r in runners}
        cum = {r: {} for r in runners}
        status, version, inplay, bet_delay, bsp_rec = "OPEN", 1, False, 0, False
        # adjustment factors: a partition of (at most) 100 so that removals are consistent with the
        # other runners' factors; includes None, 0, values just below / at / above 2.5 and up to ~97
        special = rnd.choice([None, 0.0, 1.2, 2.4, 2.5, 2.6, 10.0, 16.2, 45.5, 97.0, None, 2.5])
        rest = 100.0 - (special or 0.0)
        others = [min(90.0, _r2(rest / max(1, len(runners) - 1)))] * (len(runners) - 1)   # a factor of 100 does not occur
        afs = [special] + others
        rnd.shuffle(afs)
        rstat = {str(r): ["ACTIVE", afs[i], None] for i, r in enumerate(runners)}
        pt = t_start
        books = {}
        for k in range(n):
            if k > 0:
                pt += rnd.choice(p["gaps"])
            # status timeline
            if status == "OPEN" and k > 0 and self.chance(p["p_suspend"]):
                status = "SUSPENDED"
                if self.chance(p["p_version_on_suspend"]):
                    version += 1
            elif status == "SUSPENDED" and self.chance(p["p_reopen"]):
                status = "OPEN"
                if self.chance(0.5):
                    version += 1
            if not inplay and k > 1 and self.chance(p["p_inplay"]):
                inplay = True
                bet_delay = rnd.choice(p["bet_delays"])
                version += 1
                if m["bsp"]:
                    bsp_rec = True
                    for r in runners:
                        if rstat[str(r)][0] == "ACTIVE":
                            c = centers[r] + rnd.choice([-3, -1, 0, 1, 4])
                            c = max(1, min(len(LADDER) - 1, c))
                            rstat[str(r)] = [rstat[str(r)][0], rstat[str(r)][1], LADDER[c] / 100.0]
            if k > 1 and self.chance(p["p_removal"]):
                act = [r for r in runners if rstat[str(r)][0] == "ACTIVE"]
                if len(act) > 1:
                    r = rnd.choice(act)
                    # prefer removing the runner with the special factor
                    sp = [x for x in act if rstat[str(x)][1] == special]
                    if sp and self.chance(0.6):
                        r = sp[0]
                    rstat[str(r)] = ["REMOVED", rstat[str(r)][1], None]  # a removed runner has no starting price
                    version += 1
            u = {
                "pt": pt,
                "status": status,
                "inplay": inplay,
                "version": version,
                "bet_delay": bet_delay,
                "bsp_rec": bsp_rec,
                "rstat": {k2: list(v) for k2, v in rstat.items()},
                "books": {},
            }
            for r in runners:
                if rstat[str(r)][0] != "ACTIVE":
                    continue
                if self.chance(p["p_book_move"]):
                    centers[r] = max(3, min(len(LADDER) - 4, centers[r] + rnd.choice([-2, -1, 1, 2])))
                if k == 0 or self.chance(0.7):
                    atb, atl = self.book_for(centers[r])
                    books[r] = {"atb": atb, "atl": atl}
                if self.chance(p["p_trade"]) and status == "OPEN":
                    for _ in range(rnd.choice([1, 1, 2, 3])):
                        ti = centers[r] + rnd.choice([-2, -1, 0, 0, 1, 2])
                        ti = max(0, min(len(LADDER) - 1, ti))
                        price = LADDER[ti] / 100.0
                        inc = rnd.choice([0.02, 0.5, 1.0, 2.0, 4.0, 4.0, 6.0, 10.0, 20.0, 3.0, 7.0])
                        cum[r][price] = _r2(cum[r].get(price, 0.0) + inc)
                b = books.get(r, {"atb": [], "atl": []})
                u["books"][str(r)] = {"atb": b["atb"], "atl": b["atl"], "trd": sorted([[pr, v] for pr, v in cum[r].items()])}
            m["updates"].append(u)
        if self.chance(p["p_close"]):
            pt += rnd.choice(p["gaps"])
            act = [r for r in runners if rstat[str(r)][0] == "ACTIVE"]
            nw = m["winners"]
            winners = set(rnd.sample(act, min(len(act), rnd.choice([nw, nw, nw, nw + 1])))) if act else set()
            for r in act:
                st = "WINNER" if r in winners else "LOSER"
                if mtype == "EACH_WAY" and st == "LOSER" and self.chance(0.3):
                    st = "PLACED"
                rstat[str(r)] = [st, rstat[str(r)][1], rstat[str(r)][2]]
            m["updates"].append(
                {"pt": pt, "status": "CLOSED", "inplay": inplay, "version": version + 1, "bet_delay": bet_delay, "bsp_rec": bsp_rec, "rstat": rstat, "books": {}}
            )
        m["_centers"] = centers
        return m

    # --- strategy scripts ---------------------------------------------------------------
    def order_action(self, label, m, u, strat_name):
        p, rnd = self.p, self.rnd
        runners = m["runners"]
        sel = rnd.choice(runners)
        side = rnd.choice(["BACK", "LAY"])
        b = u["books"].get(str(sel), {"atb": [], "atl": []})
        # price relative to the book: through / at / behind
        ref = None
        if side == "BACK" and b["atb"]:
            ref = b["atb"][0][0]
        elif side == "LAY" and b["atl"]:
            ref = b["atl"][0][0]
        if ref is None:
            ref = LADDER[m["_centers"][sel]] / 100.0
        ri = min(range(len(LADDER)), key=lambda i: abs(LADDER[i] - round(ref * 100)))
        off = rnd.choice([-3, -2, -1, 0, 0, 1, 1, 2, 3])
        pi = max(0, min(len(LADDER) - 1, ri + off))
        a = {"op": "place", "o": label, "sel": sel, "side": side, "price": LADDER[pi] / 100.0, "size": rnd.choice(p["sizes"])}
        if self.chance(p["p_sp_order"]):
            a["type"] = rnd.choice(["LIMIT_ON_CLOSE", "MARKET_ON_CLOSE"])
            a["size"] = rnd.choice([2.0, 5.0, 10.0, 12.5, 30.0])
        else:
            if self.chance(p["p_fok"]):
                a["tif"] = "FILL_OR_KILL"
                mf = rnd.choice([None, None, 0.5, a["size"], _r2(a["size"] / 2), _r2(a["size"] + 1)])
                if mf:
                    a["min_fill"] = mf
            elif self.chance(p["p_moc_pers"]):
                a["pers"] = "MARKET_ON_CLOSE"
            elif self.chance(p["p_persist"]):
                a["pers"] = "PERSIST"
        if self.chance(p["p_mver"]):
            a["mv"] = rnd.choice(["cur", "cur", "stale"])
        if self.chance(p["p_force"]):
            a["force"] = True
        if self.chance(p["p_ctx_trade"]):
            a["ctx_trade"] = True
        if self.chance(p["p_cooldown"]):
            a["reset"] = rnd.choice([0.0, 0.1, 1.0, 5.0])
            a["place_reset"] = rnd.choice([0.0, 0.1, 1.0, 5.0])
        return a

    def script(self, s_idx, name, markets, mkt_idx):
        p, rnd = self.p, self.rnd
        script = {}
        labels = []
        trades = []
        n = 0
        for mi in mkt_idx:
            m = markets[mi]
            for u in m["updates"]:
                if u["status"] == "CLOSED":
                    continue
                for phase in ("book", "orders"):
                    if not self.chance(p["p_action"] if phase == "book" else p["p_action"] / 3):
                        continue
                    acts = []
                    # a hedge on another market of the event / file: the requests of this callback go to market `ti`
                    ti, tm, tu = mi, m, u
                    if p["p_cross"] and len(markets) > 1 and self.chance(p["p_cross"]):
                        ti = rnd.choice([j for j in range(len(markets)) if j != mi])
                        tm = markets[ti]
                        before = [x for x in tm["updates"] if x["pt"] <= u["pt"] and x["status"] != "CLOSED"]
                        tu = before[-1] if before else tm["updates"][0]
                    for _ in range(rnd.choice([1, 1, 1, 2, 3])):
                        x = rnd.random()
                        mine = [l for l in labels if l[1] == ti]
                        if mine and x < p["p_cancel"]:
                            a = {"op": "cancel", "o": rnd.choice(mine)[0]}
                            if self.chance(p["p_partial_cancel"]):
                                a["reduction"] = rnd.choice([0.5, 1.0, 1.5, 2.0, 2.5, 100.0] if self.chance(p["p_big_reduction"]) else [0.5, 1.0, 1.5, 2.0])
                        elif mine and x < p["p_cancel"] + p["p_replace"]:
                            lab = rnd.choice(mine)
                            base = lab[2]
                            bi = min(range(len(LADDER)), key=lambda i: abs(LADDER[i] - round(base * 100)))
                            ni = max(0, min(len(LADDER) - 1, bi + rnd.choice([-4, -2, -1, 0, 1, 2, 4])))
                            a = {"op": "replace", "o": lab[0], "price": LADDER[ni] / 100.0}
                            if self.chance(p["p_mver"]):
                                a["mv"] = rnd.choice(["cur", "stale"])
                            # later actions may address the replacement
                            if self.chance(0.6):
                                labels.append((lab[0] + ".r1", ti, LADDER[ni] / 100.0))
                        elif mine and x < p["p_cancel"] + p["p_replace"] + p["p_update"]:
                            a = {"op": "update", "o": rnd.choice(mine)[0], "pers": rnd.choice(["PERSIST", "LAPSE", "MARKET_ON_CLOSE"])}
                        elif mine and x < p["p_cancel"] + p["p_replace"] + p["p_update"] + p["p_replace_dup"]:
                            lab = rnd.choice(mine)
                            a = {"op": "place", "o": lab[0], "dup": True, "sel": 0, "side": "BACK", "price": 2.0, "size": 2.0}
                        else:
                            if n >= p["max_orders"]:
                                continue
                            n += 1
                            lab = "%so%d" % (name.lower(), n)
                            a = self.order_action(lab, tm, tu, name)
                            if trades and self.chance(p["p_multi_trade"]):
                                cand = [t for t in trades if t[1] == ti and t[2] == a["sel"]]
                                if cand:
                                    a["t"] = rnd.choice(cand)[0]
                            if "t" not in a:
                                a["t"] = "t_" + lab
                                trades.append((a["t"], ti, a["sel"]))
                            labels.append((lab, ti, a["price"]))
                        if a["op"] != "place" and self.chance(p["p_force"]):
                            a["force"] = True
                        if ti != mi:
                            a["on"] = tm["id"]
                        acts.append(a)
                    if not acts:
                        continue
                    if ti == mi and self.chance(p["p_txn"]):       # (a transaction belongs to one market)
                        inner = []
                        for a in acts:
                            inner.append(a)
                            if self.chance(0.2):
                                inner.append({"op": "execute"})
                        # the strategy's own code fails inside the `with market.transaction()` block, after some
                        # requests were accepted: they are still sent when the block is left
                        if self.chance(max(p["p_raise"], 0.04)):
                            inner.insert(self.rnd.randint(1, len(inner)), {"op": "raise"})
                        acts = [{"op": "txn", "actions": inner}]
                        if self.chance(0.15):      # asynchronous placement (the simulated exchange treats it like any other)
                            acts[0]["async"] = True
                    if self.chance(p["p_raise"]):
                        acts.append({"op": self.rnd.choice(["raise", "raise", "realtime_raise"])})
                    script["%s|%d|%s" % (m["id"], u["pt"], phase)] = acts
        return script

    def scenario(self, sid):
        p, rnd = self.p, self.rnd
        nm = self.ri(p["n_markets"])
        markets = []
        for i in range(nm):
            t_start = 0 if p["event_processing"] else i * 100000
            if p.get("market_starts"):      # markets need not be processed in time order (files are taken in name order)
                t_start = p["market_starts"][i % len(p["market_starts"])]
            markets.append(self.market(i, t_start=t_start if not p["event_processing"] else rnd.choice([0, 0, 37, 500])))
        strategies = []
        for si in range(self.ri(p["n_strategies"])):
            name = "ABCD"[si]
            mk = list(range(nm))
            s = {"name": name, "markets": mk, "script": self.script(si, name, markets, mk)}
            if self.chance(p["p_limits"]):
                s["max_live_trade_count"] = rnd.choice([1, 1, 2, 3])
                s["max_trade_count"] = rnd.choice([1, 2, 3, 1000000])
                s["multi_order_trades"] = self.chance(0.5)
            else:
                s["multi_order_trades"] = self.chance(0.3)
            if self.chance(p["p_explimits"]):
                s["max_order_exposure"] = rnd.choice([None, 2.0, 5.0, 10.0, 30.0])
                s["max_selection_exposure"] = rnd.choice([None, 5.0, 10.0, 20.0, 8.5])
                s["max_market_exposure"] = rnd.choice([None, None, 10.0, 30.0])
            if p["discipline"]:   # acknowledgement discipline: one live single-order trade per runner
                s["max_live_trade_count"] = 1
                s["multi_order_trades"] = False
            strategies.append(s)
        cfg = {
            "isolation": not self.chance(p["p_iso_off"]),
            "bpe": not self.chance(p["p_bpe_off"]),
            "full_match": self.chance(p["p_full_match"]),
            "event_processing": bool(p["event_processing"]),
        }
        if p["latencies"]:
            cfg.update(rnd.choice(p["latencies"]))
        if self.chance(p.get("p_mw_subclass", 0.05)):
            cfg["mw_subclass_first"] = True
        if self.chance(p["p_txlimit"]):
            cfg["transaction_limit"] = rnd.choice([0, 1, 2, 3, 5, None])     # None: nothing to enforce, still counted
        for m in markets:
            m.pop("_centers", None)
        scn = {"id": sid, "cfg": cfg, "markets": markets, "strategies": strategies}
        if p["shared_file"]:
            scn["shared_file"] = True
            for s in strategies:
                s["markets"] = [0]
        if self.chance(p["p_two_clients"]):
            scn["clients"] = [{"name": "c1", "transaction_limit": rnd.choice([None, 0, 1, 2, 3, 5])}, {"name": "c2", "transaction_limit": rnd.choice([None, 1, 3])}]
            if p["two_clients_unlimited"]:
                scn["clients"] = [{"name": "c1"}, {"name": "c2", "commission": 0.02}]
            for s in strategies:   # part of the placements goes through the second client
                for acts in s["script"].values():
                    for a in acts:
                        for b in (a["actions"] if a["op"] == "txn" else [a]):
                            if b["op"] == "place" and rnd.random() < 0.4:
                                b["client"] = "c2"
        return scn
