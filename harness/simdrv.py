"""Simulation-mode driver: scenario -> Betfair stream files -> real FlumineSimulation.run()
-> ndjson-able trace of projected states.

A *scenario* is a JSON-able dict (see gen_*.py for generators and spec2scn.py for the
TLC-behaviour -> scenario conversion):

  cfg:        latencies, isolation, best_price_execution, full_match, event_processing, ...
  markets:    [{id, event_id, market_type, winners, bsp, persistence, runners:[sel..],
                updates:[{pt, status, inplay, version, bet_delay, bsp_rec,
                          rstat:{sel:[status, af, bsp]}, books:{sel:{atb,atl,trd}}}]}]
  strategies: [{name, markets:[idx..], limits..., script:{"mid|pt|phase":[action..]}}]

Everything recorded is integer: sizes in pence, prices in cents, time in ms relative to
the scenario's t0.  No flumine source hook is needed: all observation is done by wrapping
callables inside this process.
"""
import os
import sys
import json
import random
import gzip
import bisect
import shutil
import logging
import tempfile
import datetime
import collections

import flumine
from flumine import FlumineSimulation, BaseStrategy, clients, config as fconfig
from flumine.order.trade import Trade, TradeStatus
from flumine.order.order import BaseOrder, OrderStatus
from flumine.order.ordertype import LimitOrder, LimitOnCloseOrder, MarketOnCloseOrder
from flumine.order.orderpackage import OrderPackageType
from flumine.execution.simulatedexecution import SimulatedExecution
from flumine.markets.middleware import SimulatedMiddleware
from flumine.exceptions import OrderUpdateError, OrderError, ControlError

logging.getLogger("flumine").setLevel(logging.CRITICAL + 1)
logging.getLogger("betfairlightweight").setLevel(logging.CRITICAL + 1)

T0 = 1700000000000  # epoch ms of relative time 0

STATUS_NAME = {
    None: "NONE",
    OrderStatus.PENDING: "PENDING",
    OrderStatus.CANCELLING: "CANCELLING",
    OrderStatus.UPDATING: "UPDATING",
    OrderStatus.REPLACING: "REPLACING",
    OrderStatus.EXECUTABLE: "EXECUTABLE",
    OrderStatus.EXECUTION_COMPLETE: "COMPLETE",
    OrderStatus.EXPIRED: "EXPIRED",
    OrderStatus.VIOLATION: "VIOLATION",
}
TSTATUS_NAME = {TradeStatus.PENDING: "PENDING", TradeStatus.LIVE: "LIVE", TradeStatus.COMPLETE: "COMPLETE"}
KIND_NAME = {
    OrderPackageType.PLACE: "PLACE",
    OrderPackageType.CANCEL: "CANCEL",
    OrderPackageType.UPDATE: "UPDATE",
    OrderPackageType.REPLACE: "REPLACE",
}


def rkey(sel, hc=None):
    """runner key: the selection id, with the handicap for the lines of a handicap market"""
    if hc in (None, 0, 0.0):
        return str(sel)
    return "%s@%s" % (sel, repr(float(hc)))


def rsplit(entry):
    """scenario runner entry (int or 'sel@hc') -> (selection id, handicap or None)"""
    if isinstance(entry, str) and "@" in entry:
        a, b = entry.split("@")
        return int(a), float(b)
    return int(entry), None


def pence(x):
    """float currency -> integer pence (exact to 1e-6, else flagged by caller)"""
    if x is None:
        return -1
    return int(round(float(x) * 100))


def is2dp(x):
    return x is None or abs(float(x) * 100 - round(float(x) * 100)) < 1e-6


def ms_of(dt):
    """datetime (simulated clock) -> ms relative to T0; -1 for None"""
    if dt is None:
        return -1
    if isinstance(dt, (int, float)):
        return int(dt) - T0
    epoch = datetime.datetime(1970, 1, 1)
    # simulated datetimes are NewDateTime/ datetime naive utc
    delta = dt - epoch
    v = int(round(delta.total_seconds() * 1000)) - T0
    # (a wall-clock reading that leaked into a simulation is years away: keep it inside TLC's 32-bit integers)
    return max(-2000000000, min(2000000000, v))


# ----------------------------------------------------------------------------------------
# stream file writer
# ----------------------------------------------------------------------------------------
def _market_definition(m, u):
    runners = []
    for i, ent in enumerate(m["runners"]):
        sel, hc_ = rsplit(ent)
        rs = u.get("rstat", {}).get(str(ent), ["ACTIVE", None, None])
        r = {"status": rs[0], "sortPriority": i + 1, "id": sel}
        if hc_ is not None:
            r["hc"] = hc_
        if len(rs) > 1 and rs[1] is not None:
            r["adjustmentFactor"] = rs[1]
        if len(rs) > 2 and rs[2] is not None:
            r["bsp"] = rs[2]
        if rs[0] == "REMOVED":
            r["removalDate"] = "2023-11-14T22:00:00.000Z"
        if m.get("handicaps", {}).get(str(sel)) is not None:
            r["hc"] = m["handicaps"][str(sel)]
        runners.append(r)
    md = {
        "bspMarket": bool(m.get("bsp", True)),
        "turnInPlayEnabled": True,
        "persistenceEnabled": bool(m.get("persistence", True)),
        "marketBaseRate": 5.0,
        "eventId": str(m.get("event_id", "30000001")),
        "eventTypeId": "7",
        "numberOfWinners": int(m.get("winners", 1)),
        "bettingType": m.get("betting_type", "ODDS"),
        "marketType": m.get("market_type", "WIN"),
        "marketTime": u.get("market_time") or m.get("market_time", "2023-11-14T23:00:00.000Z"),      # a market can be re-timed
        "suspendTime": u.get("market_time") or m.get("market_time", "2023-11-14T23:00:00.000Z"),
        "bspReconciled": bool(u.get("bsp_rec", False)),
        "complete": True,
        "inPlay": bool(u.get("inplay", False)),
        "crossMatching": False,
        "runnersVoidable": False,
        "numberOfActiveRunners": len([1 for ent in m["runners"] if u.get("rstat", {}).get(str(ent), ["ACTIVE"])[0] == "ACTIVE"]),
        "betDelay": int(u.get("bet_delay", 0)),
        "status": u.get("status", "OPEN"),
        "runners": runners,
        "regulators": ["MR_INT"],
        "countryCode": "GB",
        "discountAllowed": True,
        "timezone": "Europe/London",
        "openDate": "2023-11-14T20:00:00.000Z",
        "version": int(u.get("version", 1)),
        "name": "verif",
        "eventName": "verif",
    }
    if m.get("each_way_divisor") is not None:
        md["eachWayDivisor"] = m["each_way_divisor"]
    if m.get("ladder"):
        md["priceLadderDefinition"] = {"type": m["ladder"]}
    if m.get("line"):
        md["lineMaxUnit"], md["lineMinUnit"], md["lineInterval"] = m["line"]
    return md


_MD_KEYS = ("status", "inplay", "version", "bet_delay", "bsp_rec", "rstat", "market_time")


def write_market_file(path, m):
    prev_md = None
    prev_books = {}
    lines = []
    for k, u in enumerate(m["updates"]):
        mc = {"id": m["id"]}
        md_key = json.dumps([u.get(x) for x in _MD_KEYS], sort_keys=True)
        if k == 0 or md_key != prev_md or u.get("force_md"):
            mc["marketDefinition"] = _market_definition(m, u)
            prev_md = md_key
        rc = []
        for ent in m["runners"]:
            sel, hc_ = rsplit(ent)
            if hc_ is None and m.get("handicaps", {}).get(str(sel)) is not None:
                hc_ = m["handicaps"][str(sel)]
            ident = {"id": sel} if hc_ is None else {"id": sel, "hc": hc_}
            b = u.get("books", {}).get(str(ent))
            if b is None:
                if k == 0:
                    rc.append(dict(ident, ltp=2.0))
                continue
            sel = ent          # key of the previous-book table
            pb = prev_books.get(sel, {"atb": {}, "atl": {}, "trd": {}})
            r = dict(ident)
            nb = {}
            for side in ("atb", "atl", "trd"):
                new = {float(p): float(s) for p, s in b.get(side, [])}
                old = pb[side]
                delta = []
                for p in sorted(set(new) | set(old)):
                    if new.get(p, 0.0) != old.get(p, 0.0):
                        delta.append([p, new.get(p, 0.0)])
                if delta:
                    r[side] = delta
                nb[side] = new
            prev_books[sel] = nb
            if k == 0 and len(r) == len(ident):
                r["ltp"] = 2.0  # make the runner known to the stream cache from the first line on
            if len(r) > len(ident):
                rc.append(r)
        if rc:
            mc["rc"] = rc
        if u.get("img"):
            mc["img"] = True
        lines.append(json.dumps({"op": "mcm", "clk": str(k), "pt": T0 + int(u["pt"]), "mc": [mc]}))
    with open(path, "w") as f:
        f.write("\n".join(lines) + "\n")


# ----------------------------------------------------------------------------------------
# recorder
# ----------------------------------------------------------------------------------------
class Recorder:
    def __init__(self, scn):
        self.scn = scn
        self._raw_index = {}
        self.steps = []
        self.olabel = {}  # id(order) -> label
        self.orders = collections.OrderedDict()  # label -> order
        self.tlabel = {}
        self.trades = collections.OrderedDict()
        self.trans = []  # status transitions since last step
        self.ttrans = []  # trade status transitions since last step [trade, from, to]
        self.reqs = []  # strategy requests since last step
        self.pkgs = []  # packages handed to process_order_package since last step
        self.errors = []
        self.events = []  # logging control events
        self.flumine = None
        self.cur = {"mid": None, "pt": -1, "k": -1}
        self.upd_count = collections.Counter()
        self.delivered = []  # (strategy, mid, pt, utcnow_ms, cb)
        self.caller = []
        self.nonexact = 0
        self.closed_calls = []
        self.snapshots = True
        self.want_extras = bool(scn.get('cfg', {}).get('extras', False))
        self.done_pkgs = set()
        self.txcalls = []
        self.txbase = {}
        self.ledger = {}
        self.ledger_seen = {}
        self.removed_seen = {}
        self.want_sweep = None

    def _file_index(self, m):
        """recorded stream file: fold the `trd` deltas of the raw lines into the cumulative traded ladder
        per runner after every line - independent of the stream cache and of RunnerAnalytics"""
        idx = self._raw_index.get(m["id"])
        if idx is None:
            pts, snaps, acc = [], [], {}
            opener = gzip.open if m["file"].endswith(".gz") else open
            with opener(m["file"], "rt") as f:
                for li, line in enumerate(f):
                    if m.get("max_lines") and li >= m["max_lines"]:
                        break
                    d = json.loads(line)
                    changed = False
                    for mc in d.get("mc", []):
                        if mc.get("id") != m["id"]:
                            continue
                        if mc.get("img"):
                            acc = {}
                            changed = True
                        for rc in mc.get("rc", []):
                            if "trd" in rc:
                                sk = rkey(rc["id"], rc.get("hc"))
                                lad = dict(acc.get(sk, {}))
                                for price, size in rc["trd"]:
                                    if size == 0:
                                        lad.pop(pence(price), None)
                                    else:
                                        lad[pence(price)] = pence(size)
                                acc = dict(acc)
                                acc[sk] = lad
                                changed = True
                    if changed or not pts:
                        pts.append(int(d["pt"]) - T0)
                        snaps.append(acc)
            idx = self._raw_index[m["id"]] = (pts, snaps)
        return idx

    def raw_cum(self, mid, pt):
        """cumulative traded ladder {selk: {price_c: size_p}} of the scenario's line (mid, pt)"""
        for m in self.scn["markets"]:
            if m["id"] == mid and m.get("file"):
                pts, snaps = self._file_index(m)
                k = bisect.bisect_right(pts, pt) - 1
                return snaps[k] if k >= 0 else {}
            if m["id"] == mid:
                cum = None
                # the stream file carries deltas; the scenario holds the full ladder per update and
                # per runner (absent runner = unchanged), so fold the lines up to pt
                acc = {}
                for u in m["updates"]:
                    if u["pt"] > pt:
                        break
                    for sel, b in u.get("books", {}).items():
                        if "trd" in b:
                            acc[str(sel)] = {pence(p): pence(v) for p, v in b["trd"]}
                return acc
        return None

    # --- labelling
    def label_order(self, order, label=None):
        k = id(order)
        if k not in self.olabel:
            if label is None:
                label = "x%d" % (len(self.orders) + 1)
            self.olabel[k] = label
            self.orders[label] = order
        return self.olabel[k]

    def label_trade(self, trade, label=None):
        k = id(trade)
        if k not in self.tlabel:
            if label is None:
                label = "tx%d" % (len(self.trades) + 1)
            self.tlabel[k] = label
            self.trades[label] = trade
        return self.tlabel[k]

    # --- projection
    def _p(self, x):
        if not is2dp(x):
            self.nonexact += 1
        return pence(x)

    def rck(self, strategy, mid, sel):
        return "%s|%s|%s" % (strategy.name, mid, sel)

    def _safe(self, f):
        try:
            return self._p(f())
        except Exception:  # e.g. LimitOrder(size=0.0): size_remaining raises TypeError
            self.nonexact += 1
            return -999999

    def _safes(self, f):
        try:
            return f()
        except Exception:
            return "ERR"

    def proj_order(self, o):
        s = o.simulated
        ot = o.order_type
        tname = ot.ORDER_TYPE.name  # LIMIT / LIMIT_ON_CLOSE / MARKET_ON_CLOSE
        mk = self.flumine.markets.markets.get(o.market_id)
        inbl = live = False
        if mk is not None:
            inbl = o.id in mk.blotter and mk.blotter[o.id] is o
            live = any(x is o for x in mk.blotter._live_orders)
        size = getattr(ot, "size", None)
        red = o.update_data.get("size_reduction")
        newp = o.update_data.get("new_price")
        return {
            "status": STATUS_NAME[o.status],
            "cplt": bool(o.complete),
            "bet": o.bet_id is not None,
            "side": o.side,
            "type": tname,
            "price": self._p(getattr(ot, "price", None)) if getattr(ot, "price", None) is not None else 0,
            "size": self._p(size) if tname == "LIMIT" else self._p(ot.liability),
            "pers": getattr(ot, "persistence_type", None) or "NA",
            "tif": "FOK" if getattr(ot, "time_in_force", None) == "FILL_OR_KILL" else "NONE",
            "minfill": self._p(getattr(ot, "min_fill_size", None)) if getattr(ot, "min_fill_size", None) is not None else -1,
            "m": self._p(s.size_matched),
            "can": self._p(s.size_cancelled),
            "lap": self._p(s.size_lapsed),
            "void": self._p(s.size_voided),
            "avg": self._p(s.average_price_matched),
            "frags": [[ms_of(f[0]) if f[0] else -1, self._p(f[1]), self._p(f[2])] for f in s.matched],
            "piq": self._p(s._piq),
            "bspd": bool(s._bsp_reconciled),
            "mver": s.market_version if s.market_version is not None else -1,
            "inbl": inbl,
            "live": live,
            "trade": self.label_trade(o.trade),
            "sel": o.selection_id,
            "mid": o.market_id,
            "strat": o.trade.strategy.name,
            "rck": self.rck(o.trade.strategy, o.market_id, rkey(o.selection_id, o.handicap)),
            "created": ms_of(o.date_time_created),
            "placed": ms_of(o.responses.date_time_placed),
            "supd": ms_of(o.date_time_status_update),
            "red": self._p(red) if red else 0,
            "newp": self._p(newp) if newp else 0,
            "nlog": len(o.status_log),
            "selk": rkey(o.selection_id, o.handicap),
            "lad": getattr(ot, "price_ladder_definition", None) or "CLASSIC",
            "client": o.client.username if o.client is not None else "",
            "bseq": (list(mk.blotter._orders.values()).index(o) if inbl else -1),
        }

    def extra_order(self, o):
        """fields used by property formulas only (not part of the modelled state)"""
        s = o.simulated
        return {
            "rem": self._safe(lambda: s.size_remaining) if o.order_type.ORDER_TYPE.name == "LIMIT" else 0,
            "profit": self._safe(lambda: o.profit),
            "rstatus": o.runner_status or "NA",
            "log": [STATUS_NAME[x] for x in o.status_log],
            "cstatus": self._safes(lambda: s.status),
        }

    def visible_orders(self):
        out = collections.OrderedDict()
        for lab, o in self.orders.items():
            if o.status is None and not any(x is o for x in o.trade.orders):
                continue  # never-placed replacement that was dropped from its trade
            out[lab] = o
        return out

    def proj(self):
        fl = self.flumine
        st = {"clock": ms_of(fconfig.current_time) if fconfig.current_time else -1}
        vis = self.visible_orders()
        st["ord"] = {lab: self.proj_order(o) for lab, o in vis.items()}
        st["trd"] = {
            lab: {
                "status": TSTATUS_NAME[t.status],
                "orders": [self.label_order(o) for o in t.orders],
                "pend": bool(t.pending_orders),
                "rck": self.rck(t.strategy, t.market_id, rkey(t.selection_id, t.handicap)),
                "mid": t.market_id,
            }
            for lab, t in self.trades.items()
        }
        rc = {}
        for s in fl.strategies:
            for (mid, sel, hc), ctx in s._invested.items():
                rc[self.rck(s, mid, rkey(sel, hc))] = {
                    "trades": [self._tl(t) for t in ctx.trades],
                    "live": [self._tl(t) for t in ctx.live_trades],
                    "lastp": ms_of(ctx.datetime_last_placed),
                    "lastr": ms_of(ctx.datetime_last_reset),
                    "mid": mid,
                }
        st["rc"] = rc
        st["mkt"] = {}
        for mid, mk in fl.markets.markets.items():
            st["mkt"][mid] = self.proj_market(mk)
        st["hq"] = [self.proj_pkg(p) for p in fl.handler_queue]
        tx = {}
        for c in fl.clients:
            for ctl in c.trading_controls:
                if ctl.NAME == "MAX_TRANSACTION_COUNT":
                    tx[c.username] = {"tot": ctl.transaction_count, "totf": ctl.failed_transaction_count}
        st["tx"] = tx
        return st

    def proj_market(self, mk):
        mb = mk.market_book
        return {
            "status": mb.status if mb is not None else "NONE",
            "version": (mb.version or 0) if mb is not None else 0,
            "inplay": bool(mb.inplay) if mb is not None else False,
            "betdelay": (mb.bet_delay or 0) if mb is not None else 0,
            "bsprec": bool(mb.bsp_reconciled) if mb is not None else False,
            "closed": bool(mk.closed),
            "pt": ms_of(mb.publish_time_epoch) if mb is not None else -1,
            "removed": sorted(rkey(r.selection_id, r.handicap) for r in mb.runners if r.status == "REMOVED") if mb is not None else [],
            "nactive": int(mb.number_of_active_runners or 0) if mb is not None else 0,
            "nwin": int(mb.number_of_winners or 0) if mb is not None else 0,
        }

    def proj_pkg(self, p):
        return {
            "kind": KIND_NAME[p.package_type],
            "orders": [self.label_order(o) for o in p._orders],
            "created": ms_of(p.date_time_created),
            "delay": int(round(p.simulated_delay * 1000)),
            "mid": p.market_id,
            "mver": p._market_version if p._market_version is not None else -1,
            "done": id(p) in self.done_pkgs,
            "client": p.client.username,
        }

    def extras(self):
        fl = self.flumine
        x = {"ord": {lab: self.extra_order(o) for lab, o in self.visible_orders().items()}}
        x["tx"] = {}
        for c in fl.clients:
            for ctl in c.trading_controls:
                if ctl.NAME == "MAX_TRANSACTION_COUNT":
                    x["tx"][c.username] = {"cur": ctl.current_transaction_count, "curf": ctl.current_failed_transaction_count}
        x["mkt"] = {mid: {"nlive": len(mk.blotter._live_orders), "nord": len(mk.blotter._orders)} for mid, mk in fl.markets.markets.items()}
        return x

    def _tl(self, trade_id):
        for lab, t in self.trades.items():
            if t.id == trade_id:
                return lab
        return "t?" + str(trade_id)[:4]

    def tx_now(self):
        out = {}
        if self.flumine is None:
            return out
        for c in self.flumine.clients:
            for ctl in c.trading_controls:
                if ctl.NAME == "MAX_TRANSACTION_COUNT":
                    out[c.username] = {"cur": ctl.current_transaction_count, "curf": ctl.current_failed_transaction_count, "tot": ctl.transaction_count,
                                       "totf": ctl.failed_transaction_count, "base": self.txbase.get(c.username, 0),
                                       "limit": c.transaction_limit if c.transaction_limit is not None else -1}
        return out

    def blotter_views(self):
        """multiplicity of every order in the primary map and in each view, lookups, filters (C15)"""
        from flumine.order.order import OrderStatus as OS
        out = {}
        fl = self.flumine
        for mid, mk in fl.markets.markets.items():
            b = mk.blotter
            ent = {}
            for lab, o in self.visible_orders().items():
                if o.market_id != mid:
                    continue
                cnt = lambda lst: sum(1 for x in lst if x is o)   # noqa: E731
                ent[lab] = {
                    "orders": cnt(list(b._orders.values())),
                    "strategy": cnt(b._strategy_orders.get(o.trade.strategy, [])),
                    "stratsel": cnt(b._strategy_selection_orders.get((o.trade.strategy, o.selection_id, o.handicap), [])),
                    "client": cnt(b._client_orders.get(o.client, [])),
                    "clientstrat": cnt(b._client_strategy_orders.get((o.client, o.trade.strategy), [])),
                    "trade": cnt(b._trades.get(o.trade, [])),
                    "livecnt": cnt(b._live_orders),
                    "byid": bool(fl.markets.get_order(mid, o.id) is o),
                    "bybet": bool(o.bet_id is not None and b.get_order_bet_id(o.bet_id) is o),
                    "tradelookup": bool(b.get_trade(o.trade.id) is o.trade),
                }
            filt = {}
            for st in fl.strategies:
                filt[st.name] = {
                    "livestatus": sorted(self.label_order(o) for o in b.strategy_orders(st, order_status=[OS.PENDING, OS.CANCELLING, OS.UPDATING, OS.REPLACING, OS.EXECUTABLE])),
                    "executable": sorted(self.label_order(o) for o in b.strategy_orders(st, order_status=[OS.EXECUTABLE])),
                    "complete": sorted(self.label_order(o) for o in b.strategy_orders(st, order_status=[OS.EXECUTION_COMPLETE])),
                    "matched": sorted(self.label_order(o) for o in b.strategy_orders(st, matched_only=True)),
                    "notonlymatched": sorted(self.label_order(o) for o in b.strategy_orders(st, matched_only=False)),      # an explicit False filters nothing
                    "exec_matched": sorted(self.label_order(o) for o in b.strategy_orders(st, order_status=[OS.EXECUTABLE], matched_only=True)),
                    "all": sorted(self.label_order(o) for o in b.strategy_orders(st)),
                }
            out[mid] = {"v": ent, "f": filt, "n": len(b)}
        return out

    def lat(self):
        return {"place": int(round(fconfig.place_latency * 1000)), "cancel": int(round(fconfig.cancel_latency * 1000)),
                "update": int(round(fconfig.update_latency * 1000)), "replace": int(round(fconfig.replace_latency * 1000))}

    def step(self, ev, **args):
        rec = {"ev": ev, "a": args, "trans": self.trans, "reqs": self.reqs, "pkgs": self.pkgs, "txcalls": self.txcalls, "txs": self.tx_now(), "ttrans": self.ttrans}
        self.txcalls = []
        self.ttrans = []
        if ev == "cb":
            rec["lat"] = self.lat()
        if ev in ("upd", "end") and self.snapshots and self.flumine is not None:
            rec["bl"] = self.blotter_views()
        rec["st"] = self.proj() if self.snapshots else {}
        if self.want_extras:
            rec["x"] = self.extras()
        self.trans, self.reqs, self.pkgs = [], [], []
        self.steps.append(rec)
        return rec


# ----------------------------------------------------------------------------------------
# scripted strategy
# ----------------------------------------------------------------------------------------
class Scripted(BaseStrategy):
    def __init__(self, rec, spec, **kw):
        self.rec = rec
        self.spec = spec
        self.script = dict(spec.get("script", {}))
        super().__init__(**kw)

    def check_market_book(self, market, market_book):
        self.rec.delivered.append([self.name, market.market_id, ms_of(market_book.publish_time_epoch), ms_of(datetime.datetime.utcnow()), "check"])
        inj = self.spec.get("raise", {}).get("%s|%d|check" % (market.market_id, ms_of(market_book.publish_time_epoch)))
        if inj:
            raise RuntimeError("injected check") if inj == "rt" else flumine.exceptions.FlumineException("injected")
        return True

    def process_new_market(self, market, market_book):
        lrr = self.rec.scn.get("line_results", {}).get(market.market_id)
        if lrr is not None:
            market.context["line_range_result"] = lrr
        self.rec.delivered.append([self.name, market.market_id, ms_of(market_book.publish_time_epoch), ms_of(datetime.datetime.utcnow()), "new"])
        inj = self.spec.get("raise", {}).get("%s|%d|new" % (market.market_id, ms_of(market_book.publish_time_epoch)))
        if inj:
            raise RuntimeError("injected new")

    def process_market_book(self, market, market_book):
        pt = ms_of(market_book.publish_time_epoch)
        self.rec.delivered.append([self.name, market.market_id, pt, ms_of(datetime.datetime.utcnow()), "book"])
        self._run(market, pt, "book")

    def process_orders(self, market, orders):
        pt = ms_of(market.market_book.publish_time_epoch)
        self.rec.delivered.append([self.name, market.market_id, pt, ms_of(datetime.datetime.utcnow()), "orders"])
        self._run(market, pt, "orders")

    def process_closed_market(self, market, market_book):
        pt = ms_of(market_book.publish_time_epoch)
        self.rec.closed_calls.append([self.name, market.market_id, pt, market_book.status])

    def _run(self, market, pt, phase):
        rec = self.rec
        key = "%s|%d|%s" % (market.market_id, pt, phase)
        actions = self.script.pop(key, [])        # once: a callback may see the same book twice
        try:
            for a in actions:
                if a["op"] == "txn":
                    with market.transaction(async_place_orders=bool(a.get("async"))) as t:
                        for b in a["actions"]:
                            if b["op"] == "execute":
                                t.execute()
                            elif b["op"] == "raise":
                                raise RuntimeError("injected inside the transaction block")
                            else:
                                do_action(rec, self, market, t, b)
                elif a["op"] == "realtime_raise":
                    # the documented way to read the wall clock inside a simulation; the strategy's code fails inside it
                    with market.flumine.simulated_datetime.real_time():
                        raise RuntimeError("injected inside real_time()")
                elif a["op"] == "raise":
                    raise RuntimeError("injected in %s" % phase)
                elif a.get("on"):
                    # a request for another market of the run (a hedge through the markets of the event)
                    other = market.flumine.markets.markets.get(a["on"])
                    if other is not None and other.market_book is not None:
                        do_action(rec, self, other, None, a)
                else:
                    do_action(rec, self, market, None, a)
        finally:
            rec.step("cb", strat=self.name, mid=market.market_id, pt=pt, phase=phase, n=len(actions))


class Reactive(Scripted):
    """decides from the book it is shown (recorded market data cannot be scripted in advance): a seeded
    random walk over place (through / at / behind the best price, fill-or-kill, SP orders), cancel
    (full / partial), update and replace of its own orders"""

    def __init__(self, rec, spec, **kw):
        super().__init__(rec, spec, **kw)
        r = spec["reactive"]
        self.rng = random.Random("%s|%s" % (r.get("seed", 0), spec["name"]))
        self.r = r
        self.n_orders = 0
        self.mine = []

    def _run(self, market, pt, phase):
        rec, r, rng = self.rec, self.r, self.rng
        actions = []
        try:
            if phase == "book" and rng.random() < r.get("p_action", 0.05):
                mb = market.market_book
                cands = [x for x in mb.runners if x.status == "ACTIVE" and (x.ex.available_to_back or x.ex.available_to_lay or x.last_price_traded)]
                live = [l for l in self.mine if l in rec.orders and rec.orders[l].status.value == "Executable" and rec.orders[l].market_id == market.market_id]
                op = rng.choice(["place"] * 5 + ["cancel", "cancel", "update", "replace"])
                if op != "place" and not live:
                    op = "place"
                if op == "place" and cands and self.n_orders < r.get("max_orders", 14) and mb.status == "OPEN":
                    x = rng.choice(cands)
                    side = rng.choice(["BACK", "LAY"])
                    atb = [(l["price"], l["size"]) for l in x.ex.available_to_back]
                    atl = [(l["price"], l["size"]) for l in x.ex.available_to_lay]
                    same = atb if side == "BACK" else atl       # what the order can take
                    other = atl if side == "BACK" else atb      # where it queues
                    ref = same[0][0] if same else (other[0][0] if other else x.last_price_traded)   # price-only data: last traded price
                    if ref is not None:
                        where = rng.choice(["through", "at", "behind", "deep"])
                        k = {"through": -2, "at": 0, "behind": 1, "deep": 3}[where] * (1 if side == "BACK" else -1)
                        price = _tick_move(ref, k)
                        if where == "deep" and len(other) > 1 and rng.random() < 0.7:
                            price = other[min(len(other) - 1, rng.randint(1, 2))][0]    # join an existing deeper level
                        self.n_orders += 1
                        lab = "%so%d" % (self.name.lower(), self.n_orders)
                        a = {"op": "place", "o": lab, "sel": x.selection_id, "hc": x.handicap or 0, "side": side, "price": price,
                             "size": rng.choice([2.0, 2.0, 5.0, 10.0, 37.5])}
                        z = rng.random()
                        if z < 0.12:
                            a["tif"] = "FILL_OR_KILL"
                            if rng.random() < 0.5:
                                a["min_fill"] = rng.choice([1.0, 2.0])
                        elif z < 0.22:
                            a["pers"] = rng.choice(["PERSIST", "MARKET_ON_CLOSE"])
                        elif z < 0.30 and not mb.inplay:
                            a["type"] = rng.choice(["LIMIT_ON_CLOSE", "MARKET_ON_CLOSE"])
                            a["size"] = rng.choice([10.0, 20.0])        # the liability
                        self.mine.append(lab)
                        actions.append(a)
                elif op == "cancel" and live:
                    a = {"op": "cancel", "o": rng.choice(live)}
                    if rng.random() < 0.4:
                        a["reduction"] = rng.choice([1.0, 2.0, 50.0])
                    actions.append(a)
                elif op == "update" and live:
                    actions.append({"op": "update", "o": rng.choice(live), "pers": rng.choice(["PERSIST", "LAPSE"])})
                elif op == "replace" and live:
                    l = rng.choice(live)
                    o = rec.orders[l]
                    if o.order_type.ORDER_TYPE.name == "LIMIT":
                        actions.append({"op": "replace", "o": l, "price": _tick_move(o.order_type.price, rng.choice([-2, -1, 1, 2]))})
                        self.mine.append(l + ".r1")
            for a in actions:
                do_action(rec, self, market, None, a)
        finally:
            rec.step("cb", strat=self.name, mid=market.market_id, pt=pt, phase=phase, n=len(actions))


def _tick_move(price, k):
    import flumine.utils as fu
    prices = fu.PRICES_FLOAT
    i = min(range(len(prices)), key=lambda j: abs(prices[j] - float(price)))
    return prices[max(0, min(len(prices) - 1, i + k))]


def _mk_order_type(a, market):
    t = a.get("type", "LIMIT")
    if t == "LIMIT":
        return LimitOrder(
            price=a["price"],
            size=a["size"],
            persistence_type=a.get("pers", "LAPSE"),
            time_in_force=a.get("tif"),
            min_fill_size=a.get("min_fill"),
            price_ladder_definition=a.get("ladder", "CLASSIC"),
            line_range_info=_line_info(a),
        )
    elif t == "LIMIT_ON_CLOSE":
        return LimitOnCloseOrder(liability=a["size"], price=a["price"])
    else:
        return MarketOnCloseOrder(liability=a["size"])


def _line_info(a):
    if a.get("ladder") != "LINE_RANGE":
        return None
    from betfairlightweight.resources.bettingresources import LineRangeInfo
    lo, hi, step = a.get("line", [0.5, 200.5, 1.0])
    return LineRangeInfo(marketUnit="Runs", interval=step, minUnitValue=lo, maxUnitValue=hi)


def _mver(a, market):
    mv = a.get("mv")
    if mv is None:
        return None
    if mv == "cur":
        return market.market_book.version
    if mv == "stale":
        return (market.market_book.version or 0) + 1000
    return int(mv)


def snapshot_req(rec, order):
    """state that a refused request must leave untouched (C02)"""
    mk = rec.flumine.markets.markets.get(order.market_id)
    ctx = order.trade.strategy._invested.get(order.lookup)
    return {
        "status": STATUS_NAME[order.status],
        "nlog": len(order.status_log),
        "red": pence(order.update_data.get("size_reduction")) if order.update_data.get("size_reduction") else 0,
        "newp": pence(order.update_data.get("new_price")) if order.update_data.get("new_price") else 0,
        "pers": getattr(order.order_type, "persistence_type", None) or "NA",
        "tstatus": TSTATUS_NAME[order.trade.status],
        "inbl": bool(mk is not None and order.id in mk.blotter),
        "live": bool(mk is not None and any(x is order for x in mk.blotter._live_orders)),
        "rct": len(ctx.trades) if ctx else 0,
        "rcl": len(ctx.live_trades) if ctx else 0,
        "nto": len(order.trade.orders),
        "nbl": len(mk.blotter._orders) if mk is not None else 0,
    }


def _lim(x):
    return pence(x) if x is not None and x < 1e7 else -1


def limits_of(strat):
    return {"maxorder": _lim(strat.max_order_exposure), "maxsel": _lim(strat.max_selection_exposure), "maxmkt": _lim(strat.max_market_exposure)}


def _ms(x):
    return int(round(float(x or 0.0) * 1000))


def do_action(rec, strat, market, txn, a):
    tgt = txn if txn is not None else market
    op = a["op"]
    q = {
        "op": op,
        "kind": op.upper(),
        "o": a.get("o"),
        "strat": strat.name,
        "mid": market.market_id,
        "force": bool(a.get("force")),
        "txn": txn is not None,
        "ctx": bool(a.get("ctx_trade")),
        "r": "NOORDER",
        "tclient": txn._client.username if txn is not None else "",
    }
    q.update(limits_of(strat))
    order = None
    try:
        if op == "place":
            tl = a.get("t") or ("t_" + a["o"])
            order = rec.visible_orders().get(a["o"])
            if order is None and (a.get("dup") or a["o"] in rec.orders):
                # unknown label, or the label of a replacement that was never placed and dropped
                rec.reqs.append(q)
                return
            trade = rec.trades.get(tl) if order is None else order.trade
            if trade is None:
                trade = Trade(
                    market.market_id,
                    a["sel"],
                    a.get("hc", 0),
                    strat,
                    place_reset_seconds=a.get("place_reset", 0.0),
                    reset_seconds=a.get("reset", 0.0),
                    pending_orders=bool(a.get("pending_orders", False)),
                )
                rec.label_trade(trade, tl)
            q["existing"] = order is not None
            if order is None:
                order = trade.create_order(a["side"], _mk_order_type(a, market))
                rec.label_order(order, a["o"])
            ot = order.order_type
            tname = ot.ORDER_TYPE.name
            q.update(
                t=rec.label_trade(trade),
                sel=order.selection_id,
                side=order.side,
                otype=tname,
                price=pence(getattr(ot, "price", None)) if getattr(ot, "price", None) is not None else 0,
                size=pence(ot.size) if tname == "LIMIT" else pence(ot.liability),
                pers=getattr(ot, "persistence_type", None) or "NA",
                tif="FOK" if getattr(ot, "time_in_force", None) == "FILL_OR_KILL" else "NONE",
                minfill=pence(ot.min_fill_size) if getattr(ot, "min_fill_size", None) is not None else -1,
                rck=rec.rck(strat, market.market_id, rkey(order.selection_id, order.handicap)),
                multi=bool(strat.multi_order_trades),
                reset=_ms(trade.reset_seconds),
                placereset=_ms(trade.place_reset_seconds),
                maxtrades=int(min(strat.max_trade_count, 10**6)),
                maxlive=int(min(strat.max_live_trade_count, 10**6)),
                pendorders=bool(trade.pending_orders),
                mver=(_mver(a, market) if _mver(a, market) is not None else -1),
                selk=rkey(order.selection_id, order.handicap),
                client=(txn._client.username if txn is not None else rec.flumine.clients.get_default().username),
                lad=getattr(ot, "price_ladder_definition", None) or "CLASSIC",
            )
            kw = {}
            if a.get("force"):
                kw["force"] = True
            if a.get("client") and txn is None:
                kw["client"] = [c for c in rec.flumine.clients if c.username == a["client"]][0]
                q["client"] = a["client"]
            if a.get("ctx_trade"):
                with trade:
                    # the request itself is bracketed inside the strategy's own `with trade:` block
                    q["before"] = snapshot_req(rec, order)
                    try:
                        r = tgt.place_order(order, market_version=_mver(a, market), **kw)
                    finally:
                        q["after"] = snapshot_req(rec, order)
            else:
                q["before"] = snapshot_req(rec, order)
                r = tgt.place_order(order, market_version=_mver(a, market), **kw)
            q["r"] = "ACCEPT" if r else "REFUSE"
        else:
            order = rec.visible_orders().get(a["o"])
            if order is None:
                rec.reqs.append(q)
                return
            q["t"] = rec.label_trade(order.trade)
            q["rck"] = rec.rck(order.trade.strategy, order.market_id, rkey(order.selection_id, order.handicap))
            q["before"] = snapshot_req(rec, order)
            kw = {"force": True} if a.get("force") else {}
            if op == "cancel":
                red = a.get("reduction")
                q["red"] = pence(red) if red else 0
                r = tgt.cancel_order(order, red, **kw)
            elif op == "update":
                q["pers"] = a["pers"]
                r = tgt.update_order(order, a["pers"], **kw)
            elif op == "replace":
                q["price"] = pence(a["price"])
                q["mver"] = _mver(a, market) if _mver(a, market) is not None else -1
                r = tgt.replace_order(order, a["price"], market_version=_mver(a, market), **kw)
            else:
                raise ValueError(op)
            q["r"] = "ACCEPT" if r else "REFUSE"
    except (OrderUpdateError, OrderError) as e:
        q["r"] = "ERROR"
        q["err"] = type(e).__name__
    if order is not None and "after" not in q:
        q["after"] = snapshot_req(rec, order)
    rec.reqs.append(q)


# ----------------------------------------------------------------------------------------
# events sent to logging controls (collected synchronously by wrapping log_control)
# ----------------------------------------------------------------------------------------
def collect_event(rec, event):
    from flumine.events.events import EventType
    et = event.EVENT_TYPE
    if et == EventType.CLEARED_ORDERS_META:
        rec.events.append(["cleared_orders_meta", [rec.label_order(o) for o in event.event], ms_of(fconfig.current_time)])
    elif et == EventType.CLEARED_MARKETS:
        rec.events.append(
            [
                "cleared_markets",
                [dict(marketId=c.market_id, profit=pence(c.profit), commission=pence(c.commission), betCount=c.bet_count) for c in event.event.orders],
                ms_of(fconfig.current_time),
            ]
        )
    elif et == EventType.CLOSE_MARKET:
        mb = event.event
        rec.events.append(["closed_market", mb.market_id if not isinstance(mb, dict) else mb["id"], ms_of(fconfig.current_time)])
    elif et == EventType.MARKET:
        rec.events.append(["market", event.event.market_id, ms_of(fconfig.current_time)])
    elif et == EventType.TRADE:
        rec.events.append(["trade", rec.label_trade(event.event), ms_of(fconfig.current_time)])
    elif et == EventType.ORDER:
        rec.events.append(["order", rec.label_order(event.event), ms_of(fconfig.current_time)])


# ----------------------------------------------------------------------------------------
# instrumentation (wrapping callables, restored afterwards)
# ----------------------------------------------------------------------------------------
class Patches:
    def __init__(self):
        self.saved = []

    def wrap(self, obj, name, maker):
        orig = getattr(obj, name)
        self.saved.append((obj, name, orig))
        setattr(obj, name, maker(orig))

    def restore(self):
        for obj, name, orig in reversed(self.saved):
            setattr(obj, name, orig)
        self.saved = []


def instrument(rec, patches):
    def mk_update_status(orig):
        def _update_status(self, status):
            prev = self.status
            lab = rec.label_order(self)
            rec.label_trade(self.trade)
            caller = sys._getframe(2).f_code.co_name
            orig(self, status)
            rec.trans.append([lab, STATUS_NAME[prev], STATUS_NAME[status], caller, ms_of(fconfig.current_time) if fconfig.current_time else -1])
        return _update_status

    patches.wrap(BaseOrder, "_update_status", mk_update_status)

    def mk_trade_status(orig):
        def _update_status(self, status):
            prev = self.status
            orig(self, status)
            rec.ttrans.append([rec.label_trade(self), TSTATUS_NAME.get(prev, str(prev)), TSTATUS_NAME.get(status, str(status))])
        return _update_status

    patches.wrap(Trade, "_update_status", mk_trade_status)

    from flumine.controls.clientcontrols import MaxTransactionCount

    def hour_index(dt):
        return (ms_of(dt) + T0) // 3600000 if dt is not None else -1   # hour index (fits 32 bits)

    def mk_txvalidate(orig):
        def _validate(self, order, package_type):
            before = [self.current_transaction_count, self.current_failed_transaction_count, hour_index(self._next_hour)]
            now = fconfig.current_time
            ok = True
            try:
                return orig(self, order, package_type)
            except Exception:
                ok = False
                raise
            finally:
                rec.txcalls.append({"client": self.client.username, "now": (ms_of(now) + T0) // 1000 if now else -1, "cur": before[0], "curf": before[1], "nexthour": before[2],
                                    "limit": self.client.transaction_limit if self.client.transaction_limit is not None else -1, "accepted": ok,
                                    "cur2": self.current_transaction_count, "curf2": self.current_failed_transaction_count, "nexthour2": hour_index(self._next_hour),
                                    "kind": KIND_NAME[package_type], "o": rec.label_order(order)})
        return _validate

    patches.wrap(MaxTransactionCount, "_validate", mk_txvalidate)

    def mk_setnext(orig):
        def _set_next_hour(self):
            rec.txbase[self.client.username] = self.transaction_count + self.failed_transaction_count
            return orig(self)
        return _set_next_hour

    patches.wrap(MaxTransactionCount, "_set_next_hour", mk_setnext)

    def mk_log_control(orig):
        def log_control(self, event):
            collect_event(rec, event)
            return orig(self, event)
        return log_control

    patches.wrap(FlumineSimulation, "log_control", mk_log_control)

    def mk_replacement(orig):
        def create_order_replacement(self, order, new_price, size, date_time_created):
            r = orig(self, order, new_price, size, date_time_created)
            base = rec.label_order(order)
            n = 1
            while "%s.r%d" % (base, n) in rec.orders:
                n += 1
            rec.label_order(r, "%s.r%d" % (base, n))
            return r
        return create_order_replacement

    patches.wrap(Trade, "create_order_replacement", mk_replacement)

    def mk_handler(orig):
        def handler(self, order_package):
            # position of the package in the pending queue when it is released
            fl = self.flumine
            qi = 0
            for i, p in enumerate(fl.handler_queue):
                if p is order_package:
                    qi = i + 1
            rec.cur_qi = qi
            rec.done_pkgs.add(id(order_package))
            return orig(self, order_package)
        return handler

    patches.wrap(SimulatedExecution, "handler", mk_handler)

    def mk_exec(kind):
        def maker(orig):
            def execute(self, order_package, http_session):
                labs = [rec.label_order(o) for o in order_package._orders]
                known = set(rec.orders.keys())
                mk = self.flumine.markets.markets[order_package.market_id]
                book = proj_book(mk.market_book)
                err = None
                # the dates the simulated exchange writes into the responses of this execution (C07)
                ncan = {id(o): len(o.responses.cancel_responses) for o in order_package._orders}
                hadp = {id(o): o.responses.place_response for o in order_package._orders}
                try:
                    orig(self, order_package, http_session)
                except Exception as e:  # noqa
                    err = type(e).__name__
                    rec.errors.append(["exec", kind, err, str(e)[:120]])
                    raise
                finally:
                    rlab = {}
                    for l in rec.orders:
                        if l not in known and ".r" in l:
                            rlab[l.rsplit(".r", 1)[0]] = l
                    rdates = []
                    for o in list(order_package._orders) + [rec.orders[l] for l in rlab.values()]:
                        for r in o.responses.cancel_responses[ncan.get(id(o), 0):]:
                            d = getattr(r, "cancelled_date", None)
                            if d is not None:
                                rdates.append(["cancelled", rec.label_order(o), ms_of(d)])
                        pr = o.responses.place_response
                        if pr is not None and pr is not hadp.get(id(o)) and getattr(pr, "placed_date", None) is not None:
                            rdates.append(["placed", rec.label_order(o), ms_of(pr.placed_date)])
                    rec.step(
                        "exec",
                        rdates=rdates,
                        kind=kind,
                        orders=labs,
                        mid=order_package.market_id,
                        created=ms_of(order_package.date_time_created),
                        delay=int(round(order_package.simulated_delay * 1000)),
                        betdelay=int(order_package.bet_delay or 0),
                        mver=order_package._market_version if order_package._market_version is not None else -1,
                        book=book,
                        err=err or "",
                        bpe=bool(order_package.client.best_price_execution),
                        fullmatch=bool(order_package.client.simulated_full_match),
                        client=order_package.client.username,
                        qi=getattr(rec, "cur_qi", 0),
                        persok=bool(mk.market_book.market_definition.persistence_enabled),
                        rlab=rlab,
                        minbsp=pence(order_package.client.min_bsp_liability),
                        lat=rec.lat(),
                    )
            return execute
        return maker

    for kind in ("place", "cancel", "update", "replace"):
        patches.wrap(SimulatedExecution, "execute_" + kind, mk_exec(kind.upper()))

    def mk_pop(orig):
        def process_order_package(self, order_package):
            rec.pkgs.append(
                {
                    "kind": KIND_NAME[order_package.package_type],
                    "orders": [rec.label_order(o) for o in order_package._orders],
                    "mver": order_package._market_version if order_package._market_version is not None else -1,
                    "client": order_package.client.username,
                    "n": len(order_package._orders),
                    "delay": int(round(order_package.simulated_delay * 1000)),
                    "mid": order_package.market_id,
                    "betdelay": int(order_package.bet_delay or 0),
                }
            )
            return orig(self, order_package)
        return process_order_package

    patches.wrap(FlumineSimulation, "process_order_package", mk_pop)

    def mk_pend(orig):
        def _check_pending_packages(self, market_id):
            try:
                return orig(self, market_id)
            finally:
                rec.step("pend", mid=market_id)
                rec.done_pkgs.clear()
        return _check_pending_packages

    patches.wrap(FlumineSimulation, "_check_pending_packages", mk_pend)

    def mk_mw(orig):
        def __call__(self, market):
            seen = list(self._runner_removals)
            mid = market.market_id
            mb = market.market_book
            # independent ledger of cumulative traded volume, rebuilt from the scenario's raw lines
            pt = ms_of(mb.publish_time_epoch)
            acc = rec.raw_cum(mid, pt) or {}
            prev = rec.ledger.get(mid, {})
            cur, rawdelta = {}, {}
            for r in mb.runners:
                if r.status != "ACTIVE":
                    continue
                sk = rkey(r.selection_id, r.handicap)
                cur[sk] = acc.get(sk, {})
                if sk in prev:  # volume traded since the runner was last seen by the middleware
                    rawdelta[sk] = [[price, v - prev[sk].get(price, 0)] for price, v in sorted(cur[sk].items()) if v - prev[sk].get(price, 0) > 0]
                else:
                    rawdelta[sk] = []
            for sk, lad in prev.items():
                cur.setdefault(sk, lad)
            rec.ledger[mid] = cur
            prev_removed = rec.removed_seen.get(mid, set())
            now_removed = {rkey(r.selection_id, r.handicap): (pence(r.adjustment_factor) if r.adjustment_factor is not None else -1) for r in mb.runners if r.status == "REMOVED"}
            newly = [[k, v] for k, v in sorted(now_removed.items()) if k not in prev_removed]
            rec.removed_seen[mid] = set(now_removed.keys())
            # orders whose queue position carries a fraction of a penny before this pass (odd reported
            # volumes in recorded data): their arithmetic is not reproducible in integer pence
            piqhalf = []
            for lab, o in rec.visible_orders().items():
                try:
                    q = float(o.simulated._piq)
                    if o.market_id == mid and abs(q * 100 - round(q * 100)) > 1e-6:
                        piqhalf.append(lab)
                    # a market-on-close liability scaled by a non-runner is no longer a whole number of pence
                    elif o.market_id == mid and not is2dp(getattr(o.order_type, "liability", None)):
                        piqhalf.append(lab)
                except Exception:
                    pass
            try:
                return orig(self, market)
            finally:
                an = {}
                for (sel, hc), ra in self.markets[market.market_id].items():
                    an[rkey(sel, hc)] = [[pence(p), pence(s)] for p, s in sorted(ra.traded.items())]
                rec.step(
                    "mw",
                    mid=market.market_id,
                    traded=an,
                    rawdelta=rawdelta,
                    book=proj_book(market.market_book),
                    mtype=market.market_type or "NA",
                    iso=bool(fconfig.simulated_strategy_isolation),
                    removals=[[str(r[0]), pence(r[2]) if r[2] is not None else -1] for r in self._runner_removals if r not in seen],
                    newly_removed=newly,
                    minbsp={c.username: pence(c.min_bsp_liability) for c in rec.flumine.clients},
                    active=bool(market.blotter.active),
                    ncleared_flags=len(market.orders_cleared) + len(market.market_cleared),
                    piqhalf=sorted(piqhalf),
                )
        return __call__

    patches.wrap(SimulatedMiddleware, "__call__", mk_mw)

    def mk_pmb(orig):
        def _process_market_books(self, event):
            for mb in event.event:
                rec.upd_count[mb.market_id] += 1
                rec.cur = {"mid": mb.market_id, "pt": ms_of(mb.publish_time_epoch)}
            # an event holds one market book per market of the stream file (one, unless the file carries several
            # markets: then every message re-delivers the last book of each of them, with its own publish time)
            books = list(event.event)
            real_sdt = self.simulated_datetime

            class _SDT:  # emits the "upd" step right after the clock moved
                i = -1

                def __call__(_self, pt):
                    real_sdt(pt)
                    _self.i += 1
                    mb = books[min(_self.i, len(books) - 1)]
                    rec.cur = {"mid": mb.market_id, "pt": ms_of(mb.publish_time_epoch)}
                    rec.last_upd = rec.step("upd", mid=mb.market_id, pt=ms_of(mb.publish_time_epoch), status=mb.status, k=rec.upd_count[mb.market_id], nbooks=len(event.event), will_close=False, limits={st.name: limits_of(st) for st in self.strategies})

                def __getattr__(_self, name):
                    return getattr(real_sdt, name)

            self.simulated_datetime = _SDT()
            try:
                return orig(self, event)
            finally:
                self.simulated_datetime = real_sdt
                if rec.want_sweep is not None:
                    rec.step("sweep", mid=rec.want_sweep)
                    rec.want_sweep = None
        return _process_market_books

    patches.wrap(FlumineSimulation, "_process_market_books", mk_pmb)

    def mk_sweep(orig):
        def _process_simulated_orders(self, market):
            rec.want_sweep = market.market_id
            try:
                return orig(self, market)
            finally:
                if rec.want_sweep is not None:
                    rec.step("sweep", mid=rec.want_sweep)
                    rec.want_sweep = None
        return _process_simulated_orders

    patches.wrap(FlumineSimulation, "_process_simulated_orders", mk_sweep)

    from flumine.markets.blotter import Blotter

    def mk_so(orig):
        def strategy_orders(self, strategy, order_status=None, matched_only=None):
            # first lookup after the sweep loop = the sweep is over (before any process_orders)
            if rec.want_sweep is not None and rec.want_sweep == self.market_id and sys._getframe(1).f_code.co_name == "_process_simulated_orders":
                mid = rec.want_sweep
                rec.want_sweep = None
                rec.step("sweep", mid=mid)
            return orig(self, strategy, order_status, matched_only)
        return strategy_orders

    patches.wrap(Blotter, "strategy_orders", mk_so)

    def mk_close(orig):
        def _process_close_market(self, event):
            n_ev = len(rec.events)
            n_cc = len(rec.closed_calls)
            mb = event.event
            known_before = mb.market_id in self.markets.markets
            try:
                return orig(self, event)
            finally:
                rec.ledger.pop(mb.market_id, None)  # the middleware drops its per-market state on closure
                settle = {}
                for lab, o in rec.visible_orders().items():
                    if o.market_id != mb.market_id:
                        continue
                    ot = o.order_type
                    # a line order is an order of a line market (read from the market, not from what the order says of itself)
                    lineorder = ot.ORDER_TYPE.name == "LIMIT" and (mb.market_definition.betting_type == "LINE" if mb.market_definition is not None and mb.market_definition.betting_type
                                                                   else ot.price_ladder_definition == "LINE_RANGE")
                    settle[lab] = {
                        "profit": rec._safe(lambda: o.profit),
                        "rstatus": o.runner_status or "NA",
                        "mtype": o.market_type or "NA",
                        "ewd": int(round(o.each_way_divisor)) if o.each_way_divisor else 1,
                        "ndh": int(o.number_of_dead_heat_winners or 1),
                        "lineorder": bool(lineorder),
                        "line": pence(o.average_price_matched) if lineorder else 0,
                        "lineresult": pence(o.line_range_result) if o.line_range_result is not None else -1,
                        "client": o.client.username if o.client else "",
                    }
                cleared = []
                meta = []
                for ev in rec.events[n_ev:]:
                    if ev[0] == "cleared_markets":
                        cleared.extend(ev[1])
                    elif ev[0] == "cleared_orders_meta":
                        meta.append(ev[1])
                clients = [c.username for c in self.clients]
                if getattr(rec, "last_upd", None) is not None and rec.last_upd["a"]["mid"] == mb.market_id:
                    # the closure was processed far enough to reach the strategies / logging
                    rec.last_upd["a"]["will_close"] = known_before or mb.market_id in self.markets.markets
                rec.step(
                    "close",
                    mid=mb.market_id,
                    pt=ms_of(mb.publish_time_epoch),
                    rstat={rkey(r.selection_id, r.handicap): r.status for r in mb.runners},
                    nwin=mb.number_of_winners or 0,
                    mtype=mb.market_definition.market_type or "NA",
                    settle=settle,
                    cleared=[{"client": clients[i] if i < len(clients) else "?", "profit": c["profit"], "commission": c["commission"], "betCount": c["betCount"], "marketId": c["marketId"]} for i, c in enumerate(cleared)],
                    cleared_meta=meta,
                    rates={c.username: int(round(c.commission_base * 10000)) for c in self.clients},
                    closed_calls=[cc[:2] for cc in rec.closed_calls[n_cc:]],
                    known_before=known_before,
                    nclosed_events=len([1 for ev in rec.events[n_ev:] if ev[0] == "closed_market"]),
                    subscribed=[st.name for st in self.strategies if mb.streaming_unique_id in st.stream_ids or st.market_filter == {}],
                    mw_has=any(mb.market_id in getattr(mw, "markets", {}) for mw in self._market_middleware),
                )
        return _process_close_market

    patches.wrap(FlumineSimulation, "_process_close_market", mk_close)


def proj_book(mb):
    if mb is None:
        return {}
    out = {"status": mb.status, "version": mb.version or 0, "inplay": bool(mb.inplay), "bsprec": bool(mb.bsp_reconciled), "pt": ms_of(mb.publish_time_epoch), "bsp": bool(mb.market_definition.bsp_market), "r": {}}
    for r in mb.runners:
        out["r"][rkey(r.selection_id, r.handicap)] = {
            "status": r.status,
            "af": pence(r.adjustment_factor) if r.adjustment_factor is not None else -1,
            "atb": [[pence(x["price"]), pence(x["size"])] for x in (r.ex.available_to_back or [])],
            "atl": [[pence(x["price"]), pence(x["size"])] for x in (r.ex.available_to_lay or [])],
            "trd": [[pence(x["price"]), pence(x["size"])] for x in (r.ex.traded_volume or [])],
            "sp": pence(r.sp.actual_sp) if (r.sp is not None and not isinstance(r.sp, list) and isinstance(r.sp.actual_sp, (int, float))) else -1,
            # recorded data: a starting price / adjustment factor that is not a whole number of cents / of 0.01 %
            "spx": bool(r.sp is not None and not isinstance(r.sp, list) and isinstance(r.sp.actual_sp, (int, float)) and not is2dp(r.sp.actual_sp)),
            "afx": bool(r.adjustment_factor is not None and not is2dp(r.adjustment_factor)),
        }
    return out


# ----------------------------------------------------------------------------------------
# run
# ----------------------------------------------------------------------------------------
_CFG_DEFAULTS = dict(
    place_latency=0.120,
    cancel_latency=0.170,
    update_latency=0.150,
    replace_latency=0.280,
    isolation=True,
    bpe=True,
    full_match=False,
    event_processing=False,
    commission=0.05,
    transaction_limit=5000,
    min_bet_validation=True,
    available_prices=False,
)


def run_scenario(scn, keep_dir=None, snapshots=True, extra_setup=None):
    """Run one scenario through the real FlumineSimulation. Returns the trace dict."""
    cfg = dict(_CFG_DEFAULTS)
    cfg.update(scn.get("cfg", {}))
    rec = Recorder(scn)
    rec.snapshots = snapshots
    if os.environ.get("VERIF_WORK"):
        os.makedirs(os.environ["VERIF_WORK"], exist_ok=True)
    workdir = keep_dir or tempfile.mkdtemp(prefix="verif_sim_", dir=os.environ.get("VERIF_WORK", None))
    os.makedirs(workdir, exist_ok=True)
    global T0
    saved_t0 = T0
    T0 = int(scn.get("t0", T0))
    paths = []
    for i, m in enumerate(scn["markets"]):
        if m.get("file"):       # a recorded stream file is used as it is (or its first max_lines lines)
            if m.get("max_lines"):
                opener = gzip.open if m["file"].endswith(".gz") else open
                cut = os.path.join(workdir, os.path.basename(m["file"]).replace(".gz", ""))
                with opener(m["file"], "rt") as f, open(cut, "w") as g:
                    for li, line in enumerate(f):
                        if li >= m["max_lines"]:
                            break
                        g.write(line)
                paths.append(cut)
            else:
                paths.append(m["file"])
            continue
        p = os.path.join(workdir, m["id"])
        write_market_file(p, m)
        paths.append(p)
    if scn.get("shared_file") and len(paths) > 1:
        # one recorded file carrying several markets (event-level / self-recorded files): the lines of the
        # per-market files merged by publish time
        merged = []
        for pth in paths:
            with open(pth) as f:
                merged += [json.loads(l) for l in f if l.strip()]
        merged.sort(key=lambda d: d["pt"])        # stable: equal times keep the order of the markets
        shared = os.path.join(workdir, "shared_" + scn["markets"][0]["id"])
        with open(shared, "w") as f:
            f.write("\n".join(json.dumps(d) for d in merged) + "\n")
        paths = [shared]
    saved_cfg = {k: getattr(fconfig, k) for k in ("place_latency", "cancel_latency", "update_latency", "replace_latency", "simulated_strategy_isolation", "simulation_available_prices", "raise_errors", "simulated", "current_time")}
    real_dt = datetime.datetime
    patches = Patches()
    out = {"id": scn.get("id", ""), "error": ""}
    try:
        fconfig.place_latency = cfg["place_latency"]
        fconfig.cancel_latency = cfg["cancel_latency"]
        fconfig.update_latency = cfg["update_latency"]
        fconfig.replace_latency = cfg["replace_latency"]
        fconfig.simulated_strategy_isolation = bool(cfg["isolation"])
        fconfig.simulation_available_prices = bool(cfg["available_prices"])
        fconfig.raise_errors = bool(cfg.get("raise_errors", False))
        cl = []
        for ci, c in enumerate(scn.get("clients", [{"name": "c1"}])):
            client = clients.SimulatedClient(
                username=c.get("name", "c%d" % (ci + 1)),
                transaction_limit=c.get("transaction_limit", cfg["transaction_limit"]),
                commission_base=c.get("commission", cfg["commission"]),
                best_price_execution=c.get("bpe", cfg["bpe"]),
                simulated_full_match=c.get("full_match", cfg["full_match"]),
                min_bet_validation=c.get("min_bet_validation", cfg["min_bet_validation"]),
            )
            cl.append(client)
        if cfg.get("mw_subclass_first"):
            # a user's own subclass of the simulation middleware, registered before the client is added: it is THE
            # simulation middleware, no second default instance may be added next to it
            class UserSimulatedMiddleware(SimulatedMiddleware):
                pass
            framework = FlumineSimulation()
            framework.add_market_middleware(UserSimulatedMiddleware())
            framework.add_client(cl[0])
        else:
            framework = FlumineSimulation(client=cl[0])
        for c in cl[1:]:
            framework.add_client(c)
        rec.flumine = framework

        class _HQ(list):  # FlumineSimulation.run clears the pending queue after each market / event group
            def clear(self_):
                list.clear(self_)
                rec.step("qclear")

        framework.handler_queue = _HQ()
        instrument(rec, patches)
        strategies = []
        for s in scn["strategies"]:
            mf = {} if s.get("empty_filter") else {
                "markets": [paths[i] for i in s.get("markets", range(len(paths)))],
                "event_processing": bool(cfg["event_processing"]),
                "listener_kwargs": dict(s.get("listener_kwargs", cfg.get("listener_kwargs", {}))),      # a strategy may filter its own stream
            }
            if cfg.get("event_groups") and mf:
                mf["event_groups"] = cfg["event_groups"]
            st = (Reactive if s.get("reactive") else Scripted)(
                rec,
                s,
                market_filter=mf,
                name=s["name"],
                max_order_exposure=s.get("max_order_exposure", 1e9) if "max_order_exposure" not in s else s["max_order_exposure"],
                max_selection_exposure=s.get("max_selection_exposure", 1e9) if "max_selection_exposure" not in s else s["max_selection_exposure"],
                max_market_exposure=s.get("max_market_exposure", None),
                max_trade_count=s.get("max_trade_count", 1e6),
                max_live_trade_count=s.get("max_live_trade_count", 1000),
                multi_order_trades=bool(s.get("multi_order_trades", False)),
            )
            strategies.append(st)
            framework.add_strategy(st)
        if extra_setup:
            extra_setup(framework, rec, strategies)
        for mid, ctxv in scn.get("market_context", {}).items():
            pass
        rec.step("init")
        try:
            framework.run()
        except Exception as e:  # run aborted (e.g. TypeError out of execute_replace)
            out["error"] = "%s: %s" % (type(e).__name__, str(e)[:200])
        out["dt_restored"] = datetime.datetime is real_dt
        rec.step("end")
    finally:
        patches.restore()
        datetime.datetime = real_dt
        T0 = saved_t0
        for k, v in saved_cfg.items():
            setattr(fconfig, k, v)
        if keep_dir is None:
            shutil.rmtree(workdir, ignore_errors=True)
    out["steps"] = rec.steps
    out["delivered"] = rec.delivered
    out["events"] = rec.events
    out["closed_calls"] = rec.closed_calls
    out["errors"] = rec.errors
    out["nonexact"] = rec.nonexact
    out["final"] = rec.proj_final() if hasattr(rec, "proj_final") else {}
    out["rec"] = rec
    return out


def strip(trace, compact=True):
    """JSON-able copy (drops live objects).  compact: the per-step states are moved into a table
    of distinct states (`states`), steps refer to it by index `si` (1-based, for TLA+) and carry
    the clock separately, so unchanged states are stored once."""
    t = dict(trace)
    t.pop("rec", None)
    if compact and t.get("steps") and "si" not in t["steps"][0]:
        table, index, steps = [], {}, []
        hw = -1
        for s in t["steps"]:
            s = dict(s)
            st = dict(s.pop("st"))
            clock = st.pop("clock", -1)
            key = json.dumps(st, sort_keys=True)
            if key not in index:
                table.append(st)
                index[key] = len(table)
            s["si"] = index[key]
            s["clock"] = clock
            hw = max(hw, clock)
            s["hw"] = hw        # high-water mark of the simulated clock (it steps back in files of several markets)
            steps.append(s)
        t["steps"] = steps
        t["states"] = table
    return t


def state_of(trace, i):
    """state after step i (0-based) of a compacted or plain trace"""
    s = trace["steps"][i]
    if "st" in s:
        return s["st"]
    st = dict(trace["states"][s["si"] - 1])
    st["clock"] = s["clock"]
    return st
