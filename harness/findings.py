"""Known findings: /verif/known_findings.json is read, never written, at run time.

A violation reported by TLC on a trace of the real code is *explained* by a known finding
only if the structural matcher of that finding recognises the violating entity (the order,
trade or request the formula names) as one that went through the finding's specific
mechanism earlier in the same trace.  Any other violation of the same formula stays a
VIOLATION."""
import os
import json

ROOT = os.path.dirname(os.path.dirname(os.path.abspath(__file__)))


def load():
    with open(os.path.join(ROOT, "known_findings.json")) as f:
        return json.load(f)["findings"]


def _set(x):
    if isinstance(x, dict) and "__set__" in x:
        return x["__set__"]
    return x


# ---------------------------------------------------------------------------------------
# matchers: (violation dict, trace dict) -> bool
# ---------------------------------------------------------------------------------------
def _trades_placed_into_complete_trade(trace, upto):
    """trades that received an ACCEPTed placement while their status was COMPLETE"""
    tainted = set()
    steps = trace["steps"]
    for i in range(1, min(upto, len(steps))):
        pre = steps[i - 1]["st"] if "st" in steps[i - 1] else trace["states"][steps[i - 1]["si"] - 1]
        # the trade is healed as soon as a handler brackets it again (`with order.trade`: PENDING, then LIVE and the
        # completion test when the block is left) - what is wrong after that is not this finding
        for tt in steps[i].get("ttrans") or []:
            if tt[2] == "PENDING":
                tainted.discard(tt[0])
        # every status change an execution handler makes (responses, reset after an API error) is made inside that
        # bracket: a handler step that moved an order of the trade ends the finding's reach whether or not the
        # bracket was there
        if steps[i].get("ev") in ("run", "exec"):
            post = steps[i]["st"] if "st" in steps[i] else trace["states"][steps[i]["si"] - 1]
            for tr in steps[i].get("trans") or []:
                o = (post.get("ord") or {}).get(tr[0])
                if o and o.get("trade"):
                    tainted.discard(o["trade"])
        for q in steps[i].get("reqs", []):
            # (placed inside the strategy's own `with trade:` the trade is re-opened when the block is left: not the finding)
            if q.get("kind") == "PLACE" and q.get("r") == "ACCEPT" and not q.get("ctx"):
                t = q.get("t")
                if t in pre.get("trd", {}) and pre["trd"][t]["status"] == "COMPLETE":
                    tainted.add(t)
                # ... or had become COMPLETE earlier in the same callback (e.g. its first order was refused):
                # the request's own snapshot shows the trade status at the time of the request
                elif (q.get("before") or {}).get("tstatus") == "COMPLETE":
                    tainted.add(t)
    return tainted


def match_D16(v, trace):
    if v["prop"] != "C10" or v["name"] not in ("TradeCompleteIff", "LiveTradesExact", "ResetClockExact"):   # (ResetClockExact: older detail format)
        return False
    tainted = _trades_placed_into_complete_trade(trace, v["step"])
    if v["name"] == "ResetClockExact":
        # the order that was placed into the already COMPLETE trade completes: the trade "completes" a second
        # time (COMPLETE before and after the step) and the reset clock restarts
        d = v["detail"]
        if not isinstance(d, list) or len(d) < 13:
            return False
        completed, never, again = _set(d[8]) or [], _set(d[10]) or [], _set(d[12]) or []
        return not completed and not never and d[4] == d[6] and any(t in tainted for t in again)
    ents = _set(v["detail"]) or []
    trades = [e[1] if isinstance(e, list) else e for e in ents]
    # the finding leaves a slot charged for a trade with nothing live ("stale"); a live trade that is
    # not charged ("missing") is a different failure
    if v["name"] == "LiveTradesExact" and any(isinstance(e, list) and len(e) > 2 and e[2] != "stale" for e in ents):
        return False
    return bool(trades) and all(t in tainted for t in trades)


def match_D24(v, trace):
    """reset cool-down restarted by the completion of a trade that was never placed"""
    if v["prop"] != "C10" or v["name"] != "ResetClockExact":
        return False
    d = v["detail"]
    # detail = <<key, "was", t0, "now", t1, "clock", c, "completed", placed trades completed, "neverplaced", never-placed trades completed>>
    if not isinstance(d, list) or len(d) < 11:
        return False
    completed, never = _set(d[8]) or [], _set(d[10]) or []
    if completed or not never or d[4] != d[6]:
        return False
    # the mechanism: the refused placement was made inside the strategy's own `with trade:` block
    step = trace["steps"][v["step"] - 1]
    ctx_refused = {q.get("t") for q in step.get("reqs", []) if q.get("kind") == "PLACE" and q.get("r") in ("REFUSE", "ERROR") and q.get("ctx")}
    return all(t in ctx_refused for t in never)


def match_D9(v, trace):
    """line market, result exactly equal to the struck line: back and lay both lose"""
    if v["prop"] != "C08" or v["name"] != "SideSymmetry":
        return False
    d = v["detail"]
    # detail = <<back order, lay order, profit back, profit lay, line result, line>>
    return isinstance(d, list) and len(d) >= 6 and d[4] == d[5] and d[4] > 0 and d[2] == d[3] and d[2] < 0


def match_D1(v, trace):
    """price replacement validated with the old price / skipped twice in the market figure"""
    if v["prop"] != "C01":
        return False
    d = v["detail"]
    if v["name"] == "SentOnlyIfWithin":
        return isinstance(d, list) and d and d[0] == "REPLACE"
    if v["name"] == "LossBounded":
        # the position of that strategy / selection contains an order created by a replace whose
        # re-pricing was accepted earlier in the trace
        strat, mid, sk = d[0], d[1], d[2]
        for i, s in enumerate(trace["steps"][: v["step"]]):
            for q in s.get("reqs", []):
                if q.get("kind") == "REPLACE" and q.get("r") == "ACCEPT" and q.get("strat") == strat and q.get("mid") == mid:
                    return True
        return False
    return False


def _steps_before(trace, v):
    return trace["steps"][: v["step"]]


def _st(trace, i):
    s = trace["steps"][i]
    return s["st"] if "st" in s else trace["states"][s["si"] - 1]


def match_D13(v, trace):
    """a live placement that failed (no bet at the exchange) is completed locally and never leaves the live list"""
    if v["prop"] not in ("C11", "C15") or v["name"] != "CompleteLeftLiveList":
        return False
    o = v["detail"][0]
    st = _st(trace, v["step"] - 1)
    rec = st["ord"].get(o)
    return bool(rec) and not rec["bet"] and rec["status"] == "COMPLETE"


def match_D21(v, trace):
    """synchronous placement answered TIMEOUT although the exchange accepted the bet: the order stays PENDING, the bet is never picked up"""
    if v["prop"] != "C11" or v["name"] not in ("NoOrphanBet", "AdoptedExactlyOnce", "AdoptedCounts"):
        return False
    timed_out_refs = set()
    for s in _steps_before(trace, v):
        if s["ev"] == "run" and s["a"].get("kind") == "PLACE":
            for o, out in s["a"].get("outs", {}).items():
                if out.get("status") == "TIMEOUT":
                    timed_out_refs.add(s["a"]["pre"][o]["ref"])
            # all attempts failed in transport although the first one was applied (exhausted retries)
            if not s["a"].get("answered") and s["a"].get("applied"):
                for o in s["a"].get("orders", []):
                    timed_out_refs.add(s["a"]["pre"][o]["ref"])
    st = _st(trace, v["step"] - 1)
    if v["name"] == "NoOrphanBet":
        return st["ord"][v["detail"][0]]["ref"] in timed_out_refs
    if v["name"] == "AdoptedCounts":   # the pre-crash instance never knew the bet, the restarted one adopts it
        sel = v["detail"][0].split("|")[2]
        return any(b["ref"] in timed_out_refs and b["selk"] == sel for b in st["xb"].values())
    return v["detail"][2] in timed_out_refs


def _shared_ref_bets(st):
    by = {}
    for b, r in st["xb"].items():
        by.setdefault(r["ref"], []).append(b)
    return {b for bs in by.values() if len(bs) > 1 for b in bs}


def match_D8(v, trace):
    """after a restart only one of the bets sharing a customer reference (a replaced order) is adopted"""
    if v["prop"] != "C11" or v["name"] not in ("AdoptedExactlyOnce", "AdoptedCounts"):
        return False
    st = _st(trace, v["step"] - 1)
    if st.get("instance", 1) < 2:
        return False
    shared = _shared_ref_bets(st)
    if v["name"] == "AdoptedExactlyOnce":
        return v["detail"][0] in shared and v["detail"][1] == 0
    # AdoptedCounts on a selection that has an unadopted bet with a shared reference
    key = v["detail"][0]
    sel = key.split("|")[2]
    adopted = {o["betid"] for o in st["ord"].values()}
    return any(st["xb"][b]["selk"] == sel and b not in adopted for b in shared)


def match_D22(v, trace):
    """partial cancel whose cancelled amount equals the remainder after it, with an order-stream update processed before the response: the order is completed locally while the exchange still has the remainder"""
    if v["prop"] not in ("C11", "C12") or v["name"] not in ("CompletenessAgrees", "ReportToOwner", "AdoptedCounts", "SizesAgree", "TradesComplete"):
        return False
    hit = set()
    for i, s in enumerate(_steps_before(trace, v)):
        if s["ev"] == "run" and s["a"].get("kind") == "CANCEL" and s["a"].get("during"):
            for o, out in s["a"].get("outs", {}).items():
                pre = s["a"]["pre"][o]
                if out.get("status") == "SUCCESS" and pre.get("red", 0) > 0:
                    xb = _st(trace, i)["xb"].get(pre["betid"])
                    if xb and xb["rem"] == out.get("cancelled") and xb["status"] == "EXECUTABLE":
                        hit.add(o)
    if not hit:
        return False
    d = v["detail"]
    if v["name"] in ("CompletenessAgrees", "ReportToOwner", "SizesAgree"):
        return d[0] in hit
    if v["name"] == "TradesComplete":
        return True
    st = _st(trace, v["step"] - 1)
    return True   # AdoptedCounts after a restart: the pre-crash instance had the wrong view of that order


def _bdq_orders_of(v):
    d = v["detail"]
    if v["name"] == "InFlightRejected":
        return [d[1]]
    if v["name"] == "OneInFlight":
        return list(_set(d) or [])
    return [x[1] for x in (_set(d) or [])]


def _bdq_outstanding(st, o, kind=None):
    """a request for order o is queued or on the wire (an update the exchange has applied is not outstanding any more)"""
    if any(o in p["orders"] and (kind is None or p["kind"] == kind) for p in st.get("pool", [])):
        return True
    for w in st.get("wire", []):
        if o in w["orders"] and (kind is None or w["kind"] == kind) and not (w["kind"] == "UPDATE" and o in w["applied"]):
            return True
    return False


def _bdq_active(trace, o, upto, starts):
    """taint of order o at step `upto`: switched on by a step for which starts(i, step, pre_state) holds, off once no
    request for o is outstanding"""
    steps = trace["steps"]
    active = False
    for i in range(min(upto, len(steps))):
        s = steps[i]
        if i > 0 and starts(i, s, steps[i - 1]["st"]):
            active = True
        elif active and not _bdq_outstanding(s["st"], o):
            active = False
    return active


def match_D26(v, trace):
    """BETDAQ: an UPDATING order was reset by process_betdaq_current_order on a new sequence number that is not the
    confirmation of its update (first poll after the placement, a fill) while the update was still queued / on the wire;
    explained for that order as long as a request for it stays outstanding"""
    if v["prop"] != "C03" or v["name"] not in ("InFlightStatusWhileOutstanding", "OneInFlight", "InFlightRejected"):
        return False
    orders = _bdq_orders_of(v)
    if not orders:
        return False

    def starts_for(o):
        def starts(i, s, pre):
            if s["ev"] != "proc" or not any(t[0] == o and t[1] == "UPDATING" and t[2] == "EXECUTABLE" and t[3] == "process_betdaq_current_order" for t in s.get("trans", [])):
                return False
            if any(o in p["orders"] and p["kind"] == "UPDATE" for p in pre.get("pool", [])):
                return True
            ent = [c for c in (pre.get("hq") or [[]])[0] if c["o"] == o]
            for w in pre.get("wire", []):
                if w["kind"] == "UPDATE" and o in w["orders"]:
                    genuine = o in w["applied"] and ent and ent[-1]["price"] == pre["ord"][o]["newp"]
                    return not genuine
            return False
        return starts
    return all(_bdq_active(trace, o, v["step"], starts_for(o)) or _bdq_active(trace, o, v["step"] - 1, starts_for(o)) for o in orders)


def match_D27(v, trace):
    """BETDAQ: the failure path of execute_update reset an order that had meanwhile been confirmed by a poll and had
    accepted a new request (CANCELLING / UPDATING -> EXECUTABLE while that request is outstanding)"""
    if v["prop"] != "C03" or v["name"] not in ("InFlightStatusWhileOutstanding", "OneInFlight", "InFlightRejected"):
        return False
    orders = _bdq_orders_of(v)
    if not orders:
        return False

    def starts_for(o):
        def starts(i, s, pre):
            return (s["ev"] == "resp" and s["a"].get("kind") == "UPDATE"
                    and any(t[0] == o and t[1] in ("CANCELLING", "UPDATING") and t[2] == "EXECUTABLE" and t[3] == "execute_update" for t in s.get("trans", []))
                    and any(o in p["orders"] for p in s["st"].get("pool", [])))
        return starts
    return all(_bdq_active(trace, o, v["step"], starts_for(o)) or _bdq_active(trace, o, v["step"] - 1, starts_for(o)) for o in orders)


MATCHERS = {
    "D26": match_D26,
    "D27": match_D27,
    "D13": match_D13,
    "D21": match_D21,
    "D8": match_D8,
    "D22": match_D22,
    "D1": match_D1,
    "D16": match_D16,
    "D24": match_D24,
    "D9": match_D9,
}


def classify_case(v, case):
    """whole-run cases (checks/runcheck.py): id of the known finding that explains violation v of `case`, or None"""
    known = {f["id"] for f in load() if f.get("status") == "known"}
    # D25: the ledger comparisons of an isolation case whose strategies filter the same file differently (each stream
    # replays the market in turn, on the shared Market object); that every strategy is attached to a stream carrying
    # its own filter is a separate formula (OwnStreamFilter) which the finding does not explain
    if "D25" in known and case and case.get("kind") == "iso" and case.get("filters_differ") and v["prop"] == "C13" \
            and v["name"] in ("SameAloneAndTogether", "RegistrationOrderIrrelevant", "OtherStrategyToo"):
        return "D25"
    return None


def classify(violations, traces_by_id):
    """-> (unexplained violations, {finding id: [violations]})"""
    known = [f for f in load() if f.get("status") == "known"]
    unexplained, explained = [], {}
    for v in violations:
        tr = traces_by_id.get(v.get("trace"))
        hit = None
        for f in known:
            m = MATCHERS.get(f["id"])
            if m and f["property"] in (v["prop"], "*") or (m and v["prop"] in f.get("also", [])):
                try:
                    if m(v, tr):
                        hit = f
                        break
                except Exception:
                    pass
        if hit:
            explained.setdefault(hit["id"], []).append(v)
        else:
            unexplained.append(v)
    return unexplained, explained
