"""Known findings: /verif/known_findings.json is read, never written, at run time.

A violation reported by TLC on a trace of the real code is *explained* by a known finding
only if the structural matcher of that finding recognises the violating entity (the order,
trade or request the formula names) as one that went through the finding's specific
mechanism earlier in the same trace.  Any other violation of the same formula stays a
VIOLATION."""
import os
import json

ROOT = os.path.dirname(os.path.dirname(os.path.abspath(__file__)))


def load():
    with open(os.path.join(ROOT, "known_findings.json")) as f:
        return json.load(f)["findings"]


def _set(x):
    if isinstance(x, dict) and "__set__" in x:
        return x["__set__"]
    return x


# ---------------------------------------------------------------------------------------
# matchers: (violation dict, trace dict) -> bool
# ---------------------------------------------------------------------------------------
def _trades_placed_into_complete_trade(trace, upto):
    """trades that received an ACCEPTed placement while their status was COMPLETE"""
    tainted = set()
    steps = trace["steps"]
    for i in range(1, min(upto, len(steps))):
        pre = steps[i - 1]["st"] if "st" in steps[i - 1] else trace["states"][steps[i - 1]["si"] - 1]
        for q in steps[i].get("reqs", []):
            if q.get("kind") == "PLACE" and q.get("r") == "ACCEPT":
                t = q.get("t")
                if t in pre.get("trd", {}) and pre["trd"][t]["status"] == "COMPLETE":
                    tainted.add(t)
    return tainted


def match_D16(v, trace):
    if v["prop"] != "C10" or v["name"] not in ("TradeCompleteIff", "LiveTradesExact"):
        return False
    tainted = _trades_placed_into_complete_trade(trace, v["step"])
    ents = _set(v["detail"]) or []
    trades = [e[1] if isinstance(e, list) else e for e in ents]
    return bool(trades) and all(t in tainted for t in trades)


def match_D9(v, trace):
    """line market, result exactly equal to the struck line: back and lay both lose"""
    if v["prop"] != "C08" or v["name"] != "SideSymmetry":
        return False
    d = v["detail"]
    # detail = <<back order, lay order, profit back, profit lay, line result, line>>
    return isinstance(d, list) and len(d) >= 6 and d[4] == d[5] and d[4] > 0 and d[2] == d[3] and d[2] < 0


def match_D1(v, trace):
    """price replacement validated with the old price / skipped twice in the market figure"""
    if v["prop"] != "C01":
        return False
    d = v["detail"]
    if v["name"] == "SentOnlyIfWithin":
        return isinstance(d, list) and d and d[0] == "REPLACE"
    if v["name"] == "LossBounded":
        # the position of that strategy / selection contains an order created by a replace whose
        # re-pricing was accepted earlier in the trace
        strat, mid, sk = d[0], d[1], d[2]
        for i, s in enumerate(trace["steps"][: v["step"]]):
            for q in s.get("reqs", []):
                if q.get("kind") == "REPLACE" and q.get("r") == "ACCEPT" and q.get("strat") == strat and q.get("mid") == mid:
                    return True
        return False
    return False


MATCHERS = {
    "D1": match_D1,
    "D16": match_D16,
    "D9": match_D9,
}


def classify(violations, traces_by_id):
    """-> (unexplained violations, {finding id: [violations]})"""
    known = [f for f in load() if f.get("status") == "known"]
    unexplained, explained = [], {}
    for v in violations:
        tr = traces_by_id.get(v.get("trace"))
        hit = None
        for f in known:
            m = MATCHERS.get(f["id"])
            if m and f["property"] in (v["prop"], "*") or (m and v["prop"] in f.get("also", [])):
                try:
                    if m(v, tr):
                        hit = f
                        break
                except Exception:
                    pass
        if hit:
            explained.setdefault(hit["id"], []).append(v)
        else:
            unexplained.append(v)
    return unexplained, explained
