"""Self-test of the harness pieces that the verdicts rely on (value parser, ladder, driver)."""
import sys
from . import tlc, ladder


def main():
    v = tlc.parse_value('<< "VIOL", "C03", {<<"o1", "PENDING">>, <<"o2", "X">>}, [a |-> 1, b |-> <<>>], ("k" :> 2 @@ "j" :> {}) >>')
    assert v[0] == "VIOL" and v[2]["__set__"][0] == ["o1", "PENDING"] and v[3] == {"a": 1, "b": []} and v[4]["k"] == 2, v
    assert len(ladder.LADDER) == 350 and ladder.LADDER[0] == 101 and ladder.LADDER[-1] == 100000
    from .simdrv import run_scenario, strip, state_of
    ups = [{"pt": 1000 * k, "books": {"11": {"atb": [[2.0, 10]], "atl": [[2.2, 10]], "trd": [[2.2, 4.0 * k]]}}} for k in range(5)]
    scn = {"id": "self", "cfg": {}, "markets": [{"id": "1.100000001", "runners": [11], "updates": ups}],
           "strategies": [{"name": "A", "script": {"1.100000001|1000|book": [{"op": "place", "o": "o1", "sel": 11, "side": "BACK", "price": 2.2, "size": 5.0}]}}]}
    tr = strip(run_scenario(scn))
    last = state_of(tr, len(tr["steps"]) - 1)
    assert last["ord"]["o1"]["status"] == "EXECUTABLE" and last["ord"]["o1"]["piq"] == 400, last["ord"]["o1"]
    print("selftest ok")


if __name__ == "__main__":
    sys.exit(main())
