"""Live-mode driver: a real Flumine instance (never run(): events are handed to the _process_*
methods directly), a BetfairClient whose betting_client is an exchange double, the execution
thread pool replaced by a deterministic queue of thunks, order-stream snapshots produced from
the double's bet table.  Every "schedule" is an explicit ordering of handler-granularity steps:

  req     strategy requests on the main thread (Transaction)
  run     one pooled execution thunk: API call at the double (scripted outcome) + response
          handling; a snapshot may be processed re-entrantly between the exchange applying the
          request and the response being handled ("during")
  fill / lapse / xvoid   exchange-side events on a bet
  snap    take an order snapshot (kept; may be processed late, twice, or stale)
  proc    process a kept snapshot (BaseFlumine._process_current_orders)
  book / close           market data
  restart a new framework instance (same strategies, same exchange double)

All observation is by wrapping callables in this process; no flumine source hook.
"""
import os
import sys
import json
import time
import copy
import logging
import datetime
import collections

import flumine
from flumine import Flumine, BaseStrategy, clients, config as fconfig
from flumine.events import events as fevents
from flumine.order.trade import Trade, TradeStatus
from flumine.order.order import BaseOrder, OrderStatus
from flumine.order.ordertype import LimitOrder, LimitOnCloseOrder, MarketOnCloseOrder
from flumine.order.orderpackage import OrderPackageType
from flumine.exceptions import OrderUpdateError, OrderError
from betfairlightweight import resources, BetfairError
from betfairlightweight.exceptions import APIError
from betfairlightweight.streaming.cache import MarketBookCache

from .simdrv import STATUS_NAME, TSTATUS_NAME, KIND_NAME, pence, Patches

logging.getLogger("flumine").setLevel(logging.CRITICAL + 1)

NOW = "2023-11-14T22:00:00.000Z"


# ----------------------------------------------------------------------------------------
# exchange double
# ----------------------------------------------------------------------------------------
def rk(sel, hc=0):
    """runner key: selection id, with the handicap of a line market appended"""
    return str(sel) if not hc else "%s@%g" % (sel, hc)


class _Betting:
    def __init__(self, x):
        self.x = x

    def place_orders(self, market_id, instructions, customer_ref=None, market_version=None, customer_strategy_ref=None, async_=False, session=None):
        return self.x.call("PLACE", market_id, instructions, customer_ref, async_=async_, strategy_ref=customer_strategy_ref)

    def cancel_orders(self, market_id=None, instructions=None, customer_ref=None, session=None):
        return self.x.call("CANCEL", market_id, instructions, customer_ref)

    def update_orders(self, market_id=None, instructions=None, customer_ref=None, session=None):
        return self.x.call("UPDATE", market_id, instructions, customer_ref)

    def replace_orders(self, market_id, instructions, customer_ref=None, market_version=None, async_=False, session=None):
        return self.x.call("REPLACE", market_id, instructions, customer_ref, async_=async_)


class ExchangeDouble:
    """Betfair as the framework sees it: a bet table and the four order operations.
    replace = cancel, then (not rolled back) placement of a new bet under the same customer ref."""
    username = "double"
    lightweight = False
    session_timeout = 1200
    session_expired = False

    def __init__(self):
        self.betting = _Betting(self)
        self.bets = collections.OrderedDict()   # bet id -> dict
        self.next_id = 1000
        self.calls = []        # every API call received: dict(kind, n, ref, outcome)
        self.plan = None       # outcome plan of the next call
        self.during = None     # callable run after the request was applied, before the response returns
        self.submitted = collections.Counter()   # instructions received in answered calls by kind

    # --- bet table
    def new_bet(self, market_id, ins, strategy_ref):
        self.next_id += 1
        bid = str(self.next_id)
        if ins["orderType"] == "LIMIT":
            lo = ins["limitOrder"]
            size, price, pers = lo["size"], lo["price"], lo.get("persistenceType") or "LAPSE"
            liab = 0.0
        elif ins["orderType"] == "LIMIT_ON_CLOSE":
            size, price, pers, liab = 0.0, ins["limitOnCloseOrder"]["price"], "LAPSE", ins["limitOnCloseOrder"]["liability"]
        else:
            size, price, pers, liab = 0.0, 0.0, "LAPSE", ins["marketOnCloseOrder"]["liability"]
        self.bets[bid] = dict(bet_id=bid, market_id=market_id, selection_id=ins["selectionId"], handicap=ins.get("handicap") or 0.0, side=ins["side"], order_type=ins["orderType"],
                              price=price, size=size, liability=liab, persistence=pers, status="EXECUTABLE", matched=0.0, avgp=0.0, remaining=size, cancelled=0.0, lapsed=0.0, voided=0.0,
                              ref=ins.get("customerOrderRef"), strategy_ref=strategy_ref)
        return bid

    def fill(self, bid, amount, price=None):
        b = self.bets[bid]
        amount = min(amount, b["remaining"])
        if amount <= 0 or b["status"] != "EXECUTABLE":
            return 0.0
        p = price if price is not None else b["price"]
        tot = b["matched"] + amount
        b["avgp"] = round((b["matched"] * b["avgp"] + amount * p) / tot, 2)
        b["matched"] = round(tot, 2)
        b["remaining"] = round(b["remaining"] - amount, 2)
        if b["remaining"] == 0:
            b["status"] = "EXECUTION_COMPLETE"
        return amount

    def lapse(self, bid):
        b = self.bets[bid]
        if b["status"] != "EXECUTABLE":
            return
        b["lapsed"] = round(b["lapsed"] + b["remaining"], 2)
        b["remaining"] = 0.0
        b["status"] = "EXECUTION_COMPLETE"

    def cancel(self, bid, reduction=None):
        b = self.bets.get(bid)
        if b is None or b["status"] != "EXECUTABLE":
            return None
        c = min(reduction or b["remaining"], b["remaining"])
        b["cancelled"] = round(b["cancelled"] + c, 2)
        b["remaining"] = round(b["remaining"] - c, 2)
        if b["remaining"] == 0:
            b["status"] = "EXECUTION_COMPLETE"
        return c

    # --- API
    def call(self, kind, market_id, instructions, customer_ref, async_=False, strategy_ref=None):
        plan = self.plan or {}
        self.plan = None
        n = len(instructions)
        rec = {"kind": kind, "n": n, "ref": customer_ref, "plan": {k: v for k, v in plan.items() if k != "during"}, "applied": False, "answered": False,
               "instr": [ins.get("customerOrderRef") or str(ins.get("betId")) for ins in instructions], "reports": []}
        # Betfair de-duplicates a repeated submission with the same customerRef: it is not applied twice
        prev = [c for c in self.calls if c["ref"] == customer_ref and c["applied"] and c["kind"] == kind]
        self.calls.append(rec)
        outcomes = list(plan.get("reports") or [])
        outcomes += ["SUCCESS"] * (n - len(outcomes))
        raise_error = plan.get("raise", False)
        apply_it = plan.get("apply", not raise_error)
        reports = []
        if apply_it and prev and kind in ("PLACE", "REPLACE") and not plan.get("nodedup"):
            rec["applied"] = True
            rec["dedup"] = True
            reports = copy.deepcopy(prev[-1]["raw_reports"])
        elif apply_it:
            rec["applied"] = True
            for ins, oc in zip(instructions, outcomes):
                reports.append(self._apply(kind, market_id, ins, oc, async_, strategy_ref))
        rec["raw_reports"] = copy.deepcopy(reports)
        if self.during is not None:
            d, self.during = self.during, None
            d()
        if raise_error:
            raise APIError(None, "placeOrders", {}, Exception("injected transport / API error"))
        rec["answered"] = True
        self.submitted[kind] += n
        if kind == "CANCEL":
            perm = plan.get("perm")       # cancel reports can come back in any order, or be missing
            if perm is not None:
                reports = [reports[i] for i in perm if i < len(reports)]
        rec["reports"] = copy.deepcopy(reports)
        data = {"status": "SUCCESS" if all(r["status"] == "SUCCESS" for r in reports) else "FAILURE", "marketId": market_id, "customerRef": customer_ref, "instructionReports": reports}
        cls = {"PLACE": resources.PlaceOrders, "CANCEL": resources.CancelOrders, "UPDATE": resources.UpdateOrders, "REPLACE": resources.ReplaceOrders}[kind]
        return cls(elapsed_time=0.01, **data)

    def _apply(self, kind, market_id, ins, oc, async_, strategy_ref):
        status = oc.split(":")[0]
        code = oc.split(":")[1] if ":" in oc else None
        if kind == "PLACE":
            rep = {"status": status, "instruction": ins}
            if status == "SUCCESS":
                bid = self.new_bet(market_id, ins, strategy_ref)
                if async_:
                    rep.update(orderStatus="PENDING")     # async: no bet id in the response
                else:
                    rep.update(betId=bid, placedDate=NOW, averagePriceMatched=0.0, sizeMatched=0.0, orderStatus="EXECUTABLE")
                if code == "EXPIRED":   # fill-or-kill killed at once
                    self.bets[bid]["status"] = "EXECUTION_COMPLETE"
                    self.bets[bid]["cancelled"] = self.bets[bid]["remaining"]
                    self.bets[bid]["remaining"] = 0.0
                    rep["orderStatus"] = "EXPIRED"
            elif status == "TIMEOUT":
                if code == "PLACED":    # the exchange did accept the bet although the report timed out
                    self.new_bet(market_id, ins, strategy_ref)
            else:
                rep["errorCode"] = code or "ERROR_IN_ORDER"
            return rep
        if kind == "CANCEL":
            rep = {"status": status, "instruction": {"betId": ins["betId"], "sizeReduction": ins.get("sizeReduction")}}
            if status == "SUCCESS":
                c = self.cancel(ins["betId"], ins.get("sizeReduction"))
                if c is None:
                    rep["status"] = "FAILURE"
                    rep["errorCode"] = "BET_TAKEN_OR_LAPSED"
                else:
                    rep.update(sizeCancelled=c, cancelledDate=NOW)
            elif status == "FAILURE":
                rep["errorCode"] = code or "BET_ACTION_ERROR"
            return rep
        if kind == "UPDATE":
            rep = {"status": status, "instruction": {"betId": ins["betId"], "newPersistenceType": ins["newPersistenceType"]}}
            if status == "SUCCESS":
                b = self.bets.get(ins["betId"])
                if b is not None and b["order_type"] != "LIMIT":
                    rep["status"] = "FAILURE"
                    rep["errorCode"] = "BET_ACTION_ERROR"
                elif b is None or b["status"] != "EXECUTABLE":
                    rep["status"] = "FAILURE"
                    rep["errorCode"] = "BET_TAKEN_OR_LAPSED"
                else:
                    b["persistence"] = ins["newPersistenceType"]
            elif status == "FAILURE":
                rep["errorCode"] = code or "BET_ACTION_ERROR"
            return rep
        # REPLACE: oc = "<cancel outcome>/<place outcome>"
        parts = oc.split("/")
        c_oc = parts[0]
        p_oc = parts[1] if len(parts) > 1 else "SUCCESS"
        old = self.bets.get(ins["betId"])
        crep = {"status": c_oc.split(":")[0], "instruction": {"betId": ins["betId"], "sizeReduction": None}}
        prep = {"status": "FAILURE", "errorCode": "CANCELLED_NOT_PLACED"}
        cancelled = None
        if crep["status"] == "SUCCESS" and old is not None and old["order_type"] != "LIMIT":
            # starting-price bets cannot be re-priced: the exchange refuses the instruction
            crep["status"] = "FAILURE"
            crep["errorCode"] = "BET_ACTION_ERROR"
        elif crep["status"] == "SUCCESS":
            cancelled = self.cancel(ins["betId"]) if old is not None else None
            if cancelled is None:
                crep["status"] = "FAILURE"
                crep["errorCode"] = "BET_TAKEN_OR_LAPSED"
            else:
                crep.update(sizeCancelled=cancelled, cancelledDate=NOW)
        elif crep["status"] == "FAILURE":
            crep["errorCode"] = c_oc.split(":")[1] if ":" in c_oc else "BET_ACTION_ERROR"
        if cancelled is not None:
            pins = {"selectionId": old["selection_id"], "handicap": old["handicap"], "side": old["side"], "orderType": "LIMIT",
                    "limitOrder": {"size": cancelled, "price": ins["newPrice"], "persistenceType": old["persistence"]}, "customerOrderRef": old["ref"]}
            pst = p_oc.split(":")[0]
            prep = {"status": pst, "instruction": pins}
            if pst == "SUCCESS":
                bid = self.new_bet(market_id, pins, old["strategy_ref"])
                prep.update(betId=bid, placedDate=NOW, averagePriceMatched=0.0, sizeMatched=0.0, orderStatus="EXECUTABLE")
            elif pst == "FAILURE":
                prep["errorCode"] = p_oc.split(":")[1] if ":" in p_oc else "ERROR_IN_ORDER"
        else:
            prep = {"status": "FAILURE", "errorCode": "CANCELLED_NOT_PLACED", "instruction": {"selectionId": 0, "side": "BACK", "orderType": "LIMIT", "limitOrder": {"size": 0, "price": ins["newPrice"]}}}
        return {"status": "SUCCESS" if crep["status"] == "SUCCESS" and prep["status"] == "SUCCESS" else "FAILURE", "cancelInstructionReport": crep, "placeInstructionReport": prep}

    # --- order stream
    def snapshot(self, markets=None):
        """one CurrentOrders document per market holding every bet of that market"""
        by = collections.OrderedDict()
        for b in self.bets.values():
            if b.get("settled"):      # a closed market's bets are settled: they leave the order stream
                continue
            if markets is None or b["market_id"] in markets:
                by.setdefault(b["market_id"], []).append(self._current(b))
        return {m: {"currentOrders": lst, "moreAvailable": False} for m, lst in by.items()}

    @staticmethod
    def _current(b):
        return {"betId": b["bet_id"], "marketId": b["market_id"], "selectionId": b["selection_id"], "handicap": b["handicap"],
                "priceSize": {"price": b["price"], "size": b["size"]}, "bspLiability": b["liability"], "side": b["side"], "status": b["status"],
                "persistenceType": b["persistence"], "orderType": b["order_type"], "placedDate": NOW, "averagePriceMatched": b["avgp"],
                "sizeMatched": b["matched"], "sizeRemaining": b["remaining"], "sizeLapsed": b["lapsed"], "sizeCancelled": b["cancelled"], "sizeVoided": b["voided"],
                "customerOrderRef": b["ref"], "customerStrategyRef": b["strategy_ref"], "regulatorCode": "GIBRALTAR",
                "matchedDate": NOW if b["status"] == "EXECUTION_COMPLETE" and b["matched"] else None,
                "cancelledDate": NOW if b["cancelled"] else None, "lapsedDate": NOW if b["lapsed"] else None}


class DetPool:
    """stands in for the execution ThreadPoolExecutor: submitted thunks wait until the driver runs them"""
    class _Q:
        def __init__(self, p):
            self.p = p

        def qsize(self):
            return len(self.p.thunks)

    def __init__(self):
        self.thunks = []
        self._threads = []
        self._work_queue = DetPool._Q(self)

    def submit(self, fn, *args, **kw):
        self.thunks.append((fn, args, kw))

    def shutdown(self, wait=True):
        pass


class LiveStrategy(BaseStrategy):
    def __init__(self, rec, **kw):
        self.rec = rec
        super().__init__(**kw)

    def check_market_book(self, market, market_book):
        self.rec.delivered.append([self.name, "check", market.market_id])
        if self.rec.raise_in.get((self.name, "check")):
            raise RuntimeError("injected")
        return True

    def process_market_book(self, market, market_book):
        self.rec.delivered.append([self.name, "book", market.market_id])
        if self.rec.raise_in.get((self.name, "book")):
            raise RuntimeError("injected")

    def process_orders(self, market, orders):
        self.rec.delivered.append([self.name, "orders", market.market_id])
        if self.rec.raise_in.get((self.name, "orders")):
            raise RuntimeError("injected")

    def process_closed_market(self, market, market_book):
        self.rec.closed_calls.append([self.name, market.market_id])


# ----------------------------------------------------------------------------------------
class LiveRun:
    def __init__(self, scn):
        self.scn = scn
        self.x = ExchangeDouble()
        self.steps = []
        self.orders = collections.OrderedDict()
        self.olabel = {}
        self.trades = collections.OrderedDict()
        self.tlabel = {}
        self.trans, self.reqs = [], []
        self.delivered, self.closed_calls, self.errors = [], [], []
        self.raise_in = {}
        self.snaps = []
        self.instance = 0
        self.fresh = False        # a snapshot taken after the last response / exchange event has been processed
        self.dirty_since_snap = True
        self.caches = {}
        self.patches = Patches()
        self.shadow_tx = {"tot": 0, "totf": 0}
        self.pkg_calls = collections.Counter()
        self.only = None           # strategy names the (restarted) instance runs; None = all
        self.offset = 0.0          # seconds the clock seen by flumine.markets.market runs ahead (op "advance")
        self.closed_since = {}     # driver's own ledger: market -> clock reading at its latest closure
        self.boot()

    # --- framework instance
    def boot(self):
        self.instance += 1
        self.client = clients.BetfairClient(betting_client=self.x, order_stream=False)
        self.client.account_details = resources.AccountDetails(currencyCode="GBP", discountRate=0)
        self.fl = Flumine(self.client)
        self.pool = DetPool()
        self.fl.betfair_execution._thread_pool.shutdown(wait=False)
        self.fl.betfair_execution._thread_pool = self.pool
        self.strategies = []
        for s in [x for x in self.scn["strategies"] if self.only is None or x["name"] in self.only]:
            st = LiveStrategy(self, market_filter={"marketIds": ["1.1", "1.2"]}, name=s["name"],
                              max_order_exposure=s.get("max_order_exposure"), max_selection_exposure=s.get("max_selection_exposure"),
                              max_trade_count=s.get("max_trade_count", 10 ** 6), max_live_trade_count=s.get("max_live_trade_count", 1000),
                              multi_order_trades=bool(s.get("multi_order_trades", True)))
            self.fl.add_strategy(st)
            self.strategies.append(st)
        self.stream_id = self.strategies[0].streams[0].stream_id if self.strategies and self.strategies[0].streams else 1

    # --- labelling
    def label_order(self, order, label=None):
        k = id(order)
        if k not in self.olabel:
            if label is None:
                label = "x%d_%d" % (self.instance, len(self.orders) + 1)
            self.olabel[k] = label
            self.orders[label] = order
        return self.olabel[k]

    def label_trade(self, trade, label=None):
        k = id(trade)
        if k not in self.tlabel:
            if label is None:
                label = "tx%d_%d" % (self.instance, len(self.trades) + 1)
            self.tlabel[k] = label
            self.trades[label] = trade
        return self.tlabel[k]

    # --- market data
    def book(self, mid, status="OPEN", version=1, inplay=False, k=0):
        cache = self.caches.get(mid)
        md = {"bspMarket": True, "turnInPlayEnabled": True, "persistenceEnabled": True, "marketBaseRate": 5.0, "eventId": "30000001", "eventTypeId": "7",
              "numberOfWinners": 1, "bettingType": "ODDS", "marketType": "WIN", "marketTime": "2023-11-14T23:00:00.000Z", "suspendTime": "2023-11-14T23:00:00.000Z",
              "bspReconciled": False, "complete": True, "inPlay": inplay, "crossMatching": False, "runnersVoidable": False, "numberOfActiveRunners": 2, "betDelay": 0,
              "status": status, "runners": [{"status": "ACTIVE" if status != "CLOSED" else ("WINNER" if i == 0 else "LOSER"), "sortPriority": i + 1, "id": 11 + i} for i in range(2)],
              "regulators": ["MR_INT"], "countryCode": "GB", "discountAllowed": True, "timezone": "Europe/London", "openDate": "2023-11-14T20:00:00.000Z", "version": version, "name": "v", "eventName": "v"}
        pt = int(time.time() * 1000)
        if cache is None:
            cache = self.caches[mid] = MarketBookCache(mid, pt, False, False, False)
        cache.update_cache({"id": mid, "marketDefinition": md, "rc": [{"id": 11, "atb": [[2.0, 10 + k]], "atl": [[2.2, 10]]}, {"id": 12, "atb": [[3.0, 10]], "atl": [[3.2, 10 + k]]}]}, pt, active=True)
        mb = cache.create_resource(self.stream_id, snap=True)
        return mb

    # --- projection
    def proj_order(self, o):
        mk = self.fl.markets.markets.get(o.market_id)
        inbl = live = False
        bybet = True
        if mk is not None:
            inbl = o.id in mk.blotter and mk.blotter[o.id] is o
            live = any(x is o for x in mk.blotter._live_orders)
            # the view by bet id (it holds replacement and adopted orders: those that enter the blotter with a bet id)
            lab = self.label_order(o)
            if inbl and o.bet_id and (".r" in lab or lab.startswith("ad")):
                bybet = mk.blotter.get_order_bet_id(o.bet_id) is o
        ot = o.order_type
        tname = ot.ORDER_TYPE.name

        def f(fn):
            try:
                return pence(fn())
            except Exception:
                return -999999
        return {"status": STATUS_NAME[o.status], "cplt": bool(o.complete), "bet": o.bet_id is not None, "betid": str(o.bet_id) if o.bet_id is not None else "",
                "side": o.side, "type": tname, "price": pence(getattr(ot, "price", 0) or 0), "size": pence(ot.size) if tname == "LIMIT" else pence(ot.liability),
                "pers": getattr(ot, "persistence_type", None) or "NA", "m": f(lambda: o.size_matched), "rem": f(lambda: o.size_remaining), "can": f(lambda: o.size_cancelled),
                "lap": f(lambda: o.size_lapsed), "void": f(lambda: o.size_voided), "inbl": inbl, "live": live, "bybet": bool(bybet), "trade": self.label_trade(o.trade), "selk": rk(o.selection_id, o.handicap),
                "mid": o.market_id, "strat": o.trade.strategy.name, "rck": "%s|%s|%s" % (o.trade.strategy.name, o.market_id, rk(o.selection_id, o.handicap)), "nlog": len(o.status_log),
                "red": pence(o.update_data.get("size_reduction")) if o.update_data.get("size_reduction") else 0, "newp": pence(o.update_data.get("new_price")) if o.update_data.get("new_price") else 0,
                "inst": self.inst_of.get(id(o), self.instance), "async": bool(o.async_), "ref": o.customer_order_ref, "lad": "CLASSIC", "avg": f(lambda: o.average_price_matched),
                "frags": [], "tif": "NONE", "minfill": -1, "piq": 0, "bspd": False, "mver": -1, "created": 0, "placed": 0, "supd": 0, "client": "double", "bseq": -1}

    inst_of = {}

    def proj(self):
        vis = collections.OrderedDict((l, o) for l, o in self.orders.items() if self.inst_of.get(id(o), 0) == self.instance)
        st = {"clock": 0, "instance": self.instance}
        st["ord"] = {l: self.proj_order(o) for l, o in vis.items()}
        st["trd"] = {l: {"status": TSTATUS_NAME[t.status], "orders": [self.label_order(o) for o in t.orders], "pend": bool(t.pending_orders),
                         "rck": "%s|%s|%s" % (t.strategy.name, t.market_id, rk(t.selection_id, t.handicap)), "mid": t.market_id}
                     for l, t in self.trades.items() if self.tinst_of.get(id(t), 0) == self.instance}
        rc = {}
        for s in self.fl.strategies:
            for (mid, sel, hc), ctx in s._invested.items():
                rc["%s|%s|%s" % (s.name, mid, rk(sel, hc))] = {"trades": [self._tl(t) for t in ctx.trades], "live": [self._tl(t) for t in ctx.live_trades], "lastp": 0 if ctx.datetime_last_placed else -1,
                                                       "lastr": 0 if ctx.datetime_last_reset else -1, "mid": mid}
        st["rc"] = rc
        st["mkt"] = {mid: {"status": mk.market_book.status if mk.market_book is not None else "NONE", "closed": bool(mk.closed), "ncleared": len(mk.orders_cleared) + len(mk.market_cleared), "nlive": len(mk.blotter._live_orders), "nord": len(mk.blotter._orders),
                           "version": 0, "inplay": False, "betdelay": 0, "bsprec": False, "pt": 0, "removed": [], "nactive": 2, "nwin": 1}
                     for mid, mk in self.fl.markets.markets.items()}
        # the blotter's status filters as the code answers them (C15)
        from flumine.order.order import LIVE_STATUS
        flt = {}
        for mid, mk in self.fl.markets.markets.items():
            flt[mid] = {}
            for stg in self.fl.strategies:
                flt[mid][stg.name] = {
                    "livestatus": sorted(self.label_order(o) for o in mk.blotter.strategy_orders(stg, order_status=list(LIVE_STATUS))),
                    "executable": sorted(self.label_order(o) for o in mk.blotter.strategy_orders(stg, order_status=[OrderStatus.EXECUTABLE])),
                    "complete": sorted(self.label_order(o) for o in mk.blotter.strategy_orders(stg, order_status=[OrderStatus.EXECUTION_COMPLETE])),
                    "all": sorted(self.label_order(o) for o in mk.blotter.strategy_orders(stg)),
                }
        st["flt"] = flt
        st["pool"] = [{"kind": KIND_NAME[a[0].package_type], "orders": [self.label_order(o) for o in a[0]._orders], "retry": a[0].retry_count} for (fn, a, kw) in self.pool.thunks]
        st["hq"] = []
        ctl = [c for c in self.client.trading_controls if c.NAME == "MAX_TRANSACTION_COUNT"][0]
        st["tx"] = {"double": {"tot": ctl.transaction_count, "totf": ctl.failed_transaction_count}}
        st["xb"] = {bid: {"status": b["status"], "m": pence(b["matched"]), "rem": pence(b["remaining"]), "can": pence(b["cancelled"]), "lap": pence(b["lapsed"]), "ref": b["ref"] or "",
                          "price": pence(b["price"]), "size": pence(b["size"]), "settled": bool(b.get("settled")), "mid": b["market_id"], "selk": rk(b["selection_id"], b["handicap"]), "side": b["side"],
                          "sref": "KNOWN" if (b["ref"] or "")[:13] in self.fl.strategies.hashes else "UNKNOWN"}
                    for bid, b in self.x.bets.items()}
        st["live_orders_flag"] = bool(self.fl.markets.live_orders)
        return st

    tinst_of = {}

    def _tl(self, tid):
        for l, t in self.trades.items():
            if t.id == tid:
                return l
        return "t?"

    def step(self, ev, **a):
        rec = {"ev": ev, "a": a, "trans": self.trans, "reqs": self.reqs, "st": self.proj(), "ttrans": getattr(self, "ttrans", [])}
        self.trans, self.reqs = [], []
        self.ttrans = []
        self.steps.append(rec)
        return rec

    # --- instrumentation
    def instrument(self):
        run = self

        def mk_us(orig):
            def _update_status(self_, status):
                prev = self_.status
                lab = run.label_order(self_)
                run.inst_of.setdefault(id(self_), run.instance)
                run.label_trade(self_.trade)
                run.tinst_of.setdefault(id(self_.trade), run.instance)
                orig(self_, status)
                run.trans.append([lab, STATUS_NAME[prev], STATUS_NAME[status], sys._getframe(2).f_code.co_name, 0])
            return _update_status
        self.patches.wrap(BaseOrder, "_update_status", mk_us)

        def mk_ts(orig):
            def _update_status(self_, status):
                prev = self_.status
                orig(self_, status)
                if not hasattr(run, "ttrans"):
                    run.ttrans = []
                run.ttrans.append([run.label_trade(self_), getattr(prev, "name", str(prev)), getattr(status, "name", str(status))])
            return _update_status
        self.patches.wrap(Trade, "_update_status", mk_ts)

        def mk_repl(orig):
            def create_order_replacement(self_, order, new_price, size, dtc):
                r = orig(self_, order, new_price, size, dtc)
                base = run.label_order(order)
                n = 1
                while "%s.r%d" % (base, n) in run.orders:
                    n += 1
                run.label_order(r, "%s.r%d" % (base, n))
                run.inst_of[id(r)] = run.instance
                return r
            return create_order_replacement
        self.patches.wrap(Trade, "create_order_replacement", mk_repl)
        import flumine.order.orderpackage as op
        self.patches.wrap(op.time, "sleep", lambda orig: (lambda s: None))

    # --- steps
    def do(self, s):
        op = s["op"]
        if op == "advance":
            self.offset += float(s["seconds"])
            self.step("advance", seconds=int(s["seconds"]), now=int(self.offset))
        elif op == "book":
            self.closed_since.pop(s.get("mid", "1.1"), None)      # data for a closed market re-opens it
            self._unsettle(s.get("mid", "1.1"))
            mb = self.book(s.get("mid", "1.1"), s.get("status", "OPEN"), s.get("version", 1), k=s.get("k", 0))
            self.raise_in = {tuple(x): True for x in s.get("raise", [])}
            try:
                self.fl._process_market_books(fevents.MarketBookEvent([mb]))
            except Exception as e:      # the handler let an exception through
                self.errors.append(["escaped", "_process_market_books", type(e).__name__, str(e)[:120]])
            self.raise_in = {}
            self.step("book", mid=s.get("mid", "1.1"), status=s.get("status", "OPEN"))
        elif op == "close":
            for b in self.x.bets.values():
                if b["market_id"] == s.get("mid", "1.1"):
                    b["settled"] = True
            mb = self.book(s.get("mid", "1.1"), "CLOSED", s.get("version", 9))
            self.fl._process_market_books(fevents.MarketBookEvent([mb]))
            n0 = len(self.closed_calls)
            while not self.fl.handler_queue.empty():
                ev = self.fl.handler_queue.get()
                if ev.EVENT_TYPE == fevents.EventType.CLOSE_MARKET:
                    self.fl._process_close_market(ev)
            since_before = {m: int(t) for m, t in self.closed_since.items() if m != s.get("mid", "1.1")}
            self.closed_since[s.get("mid", "1.1")] = self.offset
            self.step("close", mid=s.get("mid", "1.1"), closed_calls=[c for c in self.closed_calls[n0:]], subscribed=[st.name for st in self.strategies],
                      now=int(self.offset), closed_since=since_before)
        elif op == "cleared":
            # what the closure worker does once it has fetched the cleared orders / market of a closed market
            mk = self.fl.markets.markets.get(s.get("mid", "1.1"))
            if mk is not None and mk.closed:
                mk.orders_cleared.append(self.client.username)
                mk.market_cleared.append(self.client.username)
            self.step("cleared", mid=s.get("mid", "1.1"))
        elif op == "raw":
            # raw-data (recorder) mode: dict updates through _process_raw_data; a CLOSED definition is queued as a
            # CloseMarketEvent holding the dict
            mid, kind = s.get("mid", "1.1"), s.get("kind", "prices")
            if kind == "prices":
                datum = {"id": mid, "rc": [{"id": 11, "ltp": 2.0 + 0.02 * s.get("k", 0)}]}
            else:
                st_ = {"def_open": "OPEN", "def_suspended": "SUSPENDED", "def_closed": "CLOSED"}[kind]
                datum = {"id": mid, "marketDefinition": {"status": st_, "version": s.get("version", 1), "runners": [{"id": 11, "status": "ACTIVE"}, {"id": 12, "status": "ACTIVE"}]}}
            pre_known = mid in self.fl.markets.markets
            if kind != "def_closed":
                self.closed_since.pop(mid, None)
                self._unsettle(mid)
            else:
                for b in self.x.bets.values():
                    if b["market_id"] == mid:
                        b["settled"] = True
            n0 = len(self.closed_calls)
            self.fl._process_raw_data(fevents.RawDataEvent((self.stream_id, "clk", int(time.time() * 1000), [datum])))
            closes = 0
            while not self.fl.handler_queue.empty():
                ev = self.fl.handler_queue.get()
                if ev.EVENT_TYPE == fevents.EventType.CLOSE_MARKET:
                    closes += 1
                    self.fl._process_close_market(ev)
            if kind == "def_closed":
                since_before = {m: int(t) for m, t in self.closed_since.items() if m != mid}
                self.closed_since[mid] = self.offset
                self.step("close", mid=mid, closed_calls=[c for c in self.closed_calls[n0:]], subscribed=[st.name for st in self.strategies],
                          now=int(self.offset), closed_since=since_before, raw=True)
            else:
                self.step("raw", mid=mid, kind=kind, known=pre_known)
        elif op == "req":
            self.requests(s)
            self.step("req", strat=s.get("strat", "A"))
        elif op == "reqtxn":
            self.requests(s, one_txn=True)
            self.step("req", strat=s.get("strat", "A"))
        elif op == "run":
            self.run_thunk(s)
        elif op in ("fill", "lapse"):
            o = self.orders.get(s["o"])
            bid = self.bet_of(s["o"])
            if bid is not None:
                if op == "fill":
                    self.x.fill(bid, s.get("amount", 1.0), s.get("price"))
                else:
                    self.x.lapse(bid)
                self.dirty_since_snap = True
            self.step(op, o=s["o"], bid=bid or "")
        elif op == "snap":
            self.snaps.append({"data": self.x.snapshot(), "fresh": True, "seq": len(self.snaps)})
            self.dirty_since_snap = False
            self.step("snap", i=len(self.snaps) - 1)
        elif op == "proc":
            if self.snaps:
                i = s.get("i", -1)
                snap = self.snaps[i if -len(self.snaps) <= i < len(self.snaps) else -1]
                latest = snap is self.snaps[-1] and not self.dirty_since_snap
                self.process_snapshot(snap, s.get("raise"))
                self.step("proc", i=self.snaps.index(snap), latest=bool(latest), quiescent=bool(latest and not self.pool.thunks))
        elif op == "foreign":
            # a bet on the account that no strategy of this program placed (another program, or a strategy that
            # is no longer configured): it appears in every order-stream image from now on
            ins = {"selectionId": s.get("sel", 11), "handicap": float(s.get("hc", 0.0)), "side": "BACK", "orderType": "LIMIT",
                   "limitOrder": {"size": 2.0, "price": 2.0, "persistenceType": "LAPSE"}, "customerOrderRef": s.get("ref", "zzzzzzzzzzzzz-1234567890")}
            if s.get("known"):      # placed by an earlier incarnation of a strategy this instance runs: to be adopted
                self.nforeign = getattr(self, "nforeign", 0) + 1
                ins["customerOrderRef"] = "%s-%018d" % (self.strategies[0].name_hash, 900000000000000000 + self.nforeign)
            self.x.new_bet(s.get("mid", "1.3"), ins, "other")
            self.dirty_since_snap = True
            self.step("foreign", mid=s.get("mid", "1.3"))
        elif op == "restart":
            pre = self.exposures()
            if s.get("strategies") is not None:
                self.only = list(s["strategies"])
            self.boot()
            self.snaps.append({"data": self.x.snapshot(), "fresh": True, "seq": len(self.snaps)})
            self.dirty_since_snap = False
            for mid in sorted(set(b["market_id"] for b in self.x.bets.values())):
                pass
            self.process_snapshot(self.snaps[-1], None)
            # a second, identical snapshot must not adopt anything twice
            if s.get("twice", True):
                self.process_snapshot(self.snaps[-1], None)
            self.step("restart", pre=pre, post=self.exposures(), quiescent=True, latest=True, running=[st.name for st in self.strategies])
        else:
            raise ValueError(op)

    def _unsettle(self, mid):
        """a market that trades again was not settled after all: its bets are back in the order stream"""
        for b in self.x.bets.values():
            if b["market_id"] == mid and b.get("settled"):
                b["settled"] = False
                self.dirty_since_snap = True

    def bet_of(self, label):
        o = self.orders.get(label)
        if o is None:
            return None
        if o.bet_id is not None and str(o.bet_id) in self.x.bets:
            return str(o.bet_id)
        for bid, b in self.x.bets.items():     # async placement: find by reference
            if b["ref"] == o.customer_order_ref and b["status"] == "EXECUTABLE":
                return bid
        return None

    def exposures(self):
        out = {}
        for mid, mk in self.fl.markets.markets.items():
            if mk.closed:       # settled: nothing of it is at the exchange any more
                continue
            for st in self.fl.strategies:
                runners = {(11, 0), (12, 0)} | {(o.selection_id, o.handicap) for o in mk.blotter.strategy_orders(st)} | {(k[1], k[2]) for k in st._invested if k[0] == mid}
                for sel, hc in sorted(runners):
                    e = mk.blotter.get_exposures(st, (mid, sel, hc))
                    ctx = st._invested.get((mid, sel, hc))
                    # live trades that have a live bet at the exchange (what a restarted instance can find there)
                    livex = 0
                    phantom = False
                    for o in mk.blotter.strategy_selection_orders(st, sel, hc):
                        b = self.x.bets.get(o.bet_id) if o.bet_id else None
                        if b is not None and b["status"] == "EXECUTABLE":
                            livex += 1
                        # a starting-price order whose placement failed never reached the exchange, yet its liability is
                        # still in the figures: nothing a restarted instance could adopt
                        if b is None and o.order_type.ORDER_TYPE.name != "LIMIT" and o.status.value not in ("Violation", "Pending"):
                            phantom = True
                    out["%s|%s|%s" % (st.name, mid, rk(sel, hc))] = {"win": pence(e["worst_possible_profit_on_win"]), "lose": pence(e["worst_possible_profit_on_lose"]),
                                                             "ntrades": len(ctx.trades) if ctx else 0, "nlive": len(ctx.live_trades) if ctx else 0, "nlivex": livex, "phantom": phantom,
                                                             "norders": len(mk.blotter.strategy_selection_orders(st, sel, hc))}
        return out

    def process_snapshot(self, snap, raise_spec):
        docs = []
        for mid, data in snap["data"].items():
            co = resources.CurrentOrders(**copy.deepcopy(data))
            co.client = self.client
            docs.append(co)
        self.raise_in = {tuple(x): True for x in (raise_spec or [])}
        try:
            self.fl._process_current_orders(fevents.CurrentOrdersEvent(docs))
        except Exception as e:      # the handler let an exception through: Flumine.run's loop would die here
            self.errors.append(["escaped", "_process_current_orders", type(e).__name__, str(e)[:120]])
        finally:
            self.raise_in = {}
        for o_lab, o in list(self.orders.items()):
            pass
        # orders adopted from the stream get labels
        for mk in self.fl.markets:
            for o in mk.blotter:
                if id(o) not in self.olabel:
                    self.inst_of[id(o)] = self.instance
                    self.tinst_of[id(o.trade)] = self.instance
                    self.label_order(o, "ad%d_%s" % (self.instance, o.bet_id))
                    self.label_trade(o.trade, "tad%d_%s" % (self.instance, o.bet_id))

    def requests(self, s, one_txn=False):
        strat = [x for x in self.strategies if x.name == s.get("strat", "A")][0]
        mk = self.fl.markets.markets.get(s.get("mid", "1.1"))
        if mk is None:
            return
        if one_txn:
            with mk.transaction() as t:
                for a in s["actions"]:
                    q = {"kind": a["op"].upper(), "o": a.get("o"), "r": "NOORDER", "force": False, "strat": strat.name, "mid": mk.market_id}
                    try:
                        if a["op"] == "place":
                            trade = Trade(mk.market_id, a["sel"], a.get("hc", 0), strat)
                            self.label_trade(trade, a.get("t") or "t_" + a["o"])
                            self.tinst_of[id(trade)] = self.instance
                            order = trade.create_order(a["side"], LimitOrder(a["price"], a["size"]))
                            self.label_order(order, a["o"])
                            self.inst_of[id(order)] = self.instance
                            q["t"] = self.label_trade(trade)
                            q["before"] = self.snap_req(order)
                            r = t.place_order(order)
                        else:
                            order = self.orders[a["o"]]
                            q["before"] = self.snap_req(order)
                            r = {"cancel": lambda: t.cancel_order(order, a.get("reduction")), "update": lambda: t.update_order(order, "PERSIST"),
                                 "replace": lambda: t.replace_order(order, a["price"])}[a["op"]]()
                        q["r"] = "ACCEPT" if r else "REFUSE"
                    except (OrderUpdateError, OrderError):
                        q["r"] = "ERROR"
                    q["after"] = self.snap_req(order)
                    self.reqs.append(q)
            return
        for a in s["actions"]:
            q = {"kind": a["op"].upper(), "o": a.get("o"), "r": "NOORDER", "force": bool(a.get("force")), "strat": strat.name, "mid": mk.market_id}
            try:
                if a["op"] == "place":
                    order = self.orders.get(a["o"])
                    if order is None:
                        tl = a.get("t") or "t_" + a["o"]
                        trade = self.trades.get(tl)
                        if trade is None or self.tinst_of.get(id(trade)) != self.instance:
                            trade = Trade(mk.market_id, a["sel"], a.get("hc", 0), strat)
                            self.label_trade(trade, tl)
                            self.tinst_of[id(trade)] = self.instance
                        if a.get("type", "LIMIT") == "LIMIT":
                            ot = LimitOrder(a["price"], a["size"], persistence_type=a.get("pers", "LAPSE"))
                        elif a["type"] == "LIMIT_ON_CLOSE":
                            ot = LimitOnCloseOrder(a["size"], a["price"])
                        else:
                            ot = MarketOnCloseOrder(a["size"])
                        order = trade.create_order(a["side"], ot)
                        self.label_order(order, a["o"])
                        self.inst_of[id(order)] = self.instance
                    q["t"] = self.label_trade(order.trade)
                    q["before"] = self.snap_req(order)
                    with mk.transaction(async_place_orders=bool(a.get("async"))) as t:
                        r = t.place_order(order, force=bool(a.get("force")))
                    q["r"] = "ACCEPT" if r else "REFUSE"
                else:
                    order = self.orders.get(a["o"])
                    if order is None or self.inst_of.get(id(order)) != self.instance:
                        self.reqs.append(q)
                        continue
                    q["before"] = self.snap_req(order)
                    kw = {"force": True} if a.get("force") else {}
                    if a["op"] == "cancel":
                        r = mk.cancel_order(order, a.get("reduction"), **kw)
                    elif a["op"] == "update":
                        r = mk.update_order(order, a.get("pers", "PERSIST"), **kw)
                    else:
                        r = mk.replace_order(order, a["price"], **kw)
                    q["r"] = "ACCEPT" if r else "REFUSE"
            except (OrderUpdateError, OrderError) as e:
                q["r"] = "ERROR"
            if q["r"] != "NOORDER":
                q["after"] = self.snap_req(order)
            self.reqs.append(q)

    def snap_req(self, order):
        mk = self.fl.markets.markets.get(order.market_id)
        return {"status": STATUS_NAME[order.status], "nlog": len(order.status_log), "red": pence(order.update_data.get("size_reduction")) if order.update_data.get("size_reduction") else 0,
                "newp": pence(order.update_data.get("new_price")) if order.update_data.get("new_price") else 0, "pers": getattr(order.order_type, "persistence_type", None) or "NA",
                "tstatus": TSTATUS_NAME[order.trade.status], "inbl": bool(mk is not None and order.id in mk.blotter), "bet": order.bet_id is not None}

    def run_thunk(self, s):
        if not self.pool.thunks:
            return
        i = s.get("i", 0) % len(self.pool.thunks)
        fn, args, kw = self.pool.thunks.pop(i)
        pkg = args[0]
        labs = [self.label_order(o) for o in pkg._orders]
        kind = KIND_NAME[pkg.package_type]
        plan = dict(s.get("plan") or {})
        if plan.get("reports_any"):
            import random as _r
            from .gen_live import fill_reports
            plan = fill_reports(_r.Random(self.scn.get("seed", 0) * 1000 + len(self.steps)), plan, kind, len(labs))
        plan.pop("reports_any", None)
        pre = {l: self.proj_order(self.orders[l]) for l in labs}
        # the orders whose instructions this attempt submits (what the package builds at call time)
        sent_labels = [l for l in labs if pre[l]["status"] != "VIOLATION" and not (kind == "REPLACE" and pre[l]["status"] == "COMPLETE")]
        self.x.plan = plan
        if plan.get("during") == "snapshot":
            def during():
                snap = {"data": self.x.snapshot(), "fresh": True, "seq": len(self.snaps)}
                self.snaps.append(snap)
                self.process_snapshot(snap, None)
            self.x.during = during
        ncalls0 = len(self.x.calls)
        tx0 = dict(self.proj()["tx"]["double"])
        err = ""
        try:
            fn(*args, **kw)
        except Exception as e:   # an exception escaping the handler would kill the pool thread silently
            err = "%s: %s" % (type(e).__name__, str(e)[:100])
            self.errors.append(err)
        self.x.plan = None
        self.x.during = None
        call = self.x.calls[-1] if len(self.x.calls) > ncalls0 else None
        outs = {}
        if call is not None and call["answered"]:
            by_ref = {o.customer_order_ref: l for l, o in self.orders.items() if self.inst_of.get(id(o)) == self.instance and l in labs}
            by_bet = {pre[l]["betid"]: l for l in labs if pre[l]["betid"]}
            for rep in call["reports"]:
                if kind == "PLACE":
                    l = by_ref.get(rep["instruction"].get("customerOrderRef"))
                    if l:
                        outs[l] = {"status": rep["status"], "ostatus": rep.get("orderStatus") or "", "code": rep.get("errorCode") or "", "hasbet": bool(rep.get("betId"))}
                elif kind in ("CANCEL", "UPDATE"):
                    l = by_bet.get(str(rep["instruction"]["betId"]))
                    if l:
                        outs[l] = {"status": rep["status"], "code": rep.get("errorCode") or "", "cancelled": pence(rep.get("sizeCancelled") or 0)}
                else:
                    l = by_bet.get(str(rep["cancelInstructionReport"]["instruction"]["betId"]))
                    if l:
                        outs[l] = {"status": rep["cancelInstructionReport"]["status"], "code": rep["cancelInstructionReport"].get("errorCode") or "",
                                   "cancelled": pence(rep["cancelInstructionReport"].get("sizeCancelled") or 0), "pstatus": rep["placeInstructionReport"]["status"],
                                   "newbet": str(rep["placeInstructionReport"].get("betId") or "")}
        self.pkg_calls[str(pkg.id)] += (1 if call is not None else 0)
        self.dirty_since_snap = True
        resubmitted = any(a[0] is pkg for (f2, a, k2) in self.pool.thunks)
        self.step("run", kind=kind, orders=labs, plan={k: v for k, v in plan.items()}, pre=pre, err=err, called=call is not None, answered=bool(call and call["answered"]),
                  applied=bool(call and call["applied"]), n_instr=call["n"] if call else 0, retry=pkg.retry_count, resubmitted=resubmitted, calls_for_pkg=self.pkg_calls[str(pkg.id)],
                  tx0=tx0, async_=bool(pkg.async_), during=bool(plan.get("during")), outs=outs, sent=[l for l in labs if l in sent_labels],
                  nfailed=len([1 for r in (call["reports"] if call and call["answered"] else []) if (r.get("cancelInstructionReport", r)["status"] == "FAILURE")]))

    def run(self):
        self.instrument()
        import types
        import flumine.markets.market as mmod
        drv = self
        real = datetime.datetime

        class _ShiftedDT(real):
            @classmethod
            def utcnow(cls):
                return real.utcnow() + datetime.timedelta(seconds=drv.offset)
        shim = types.SimpleNamespace(datetime=_ShiftedDT, timedelta=datetime.timedelta, timezone=datetime.timezone)
        self.patches.wrap(mmod, "datetime", lambda orig: shim)
        try:
            self.step("init")
            for s in self.scn["steps"]:
                self.do(s)
            self.step("end", quiescent=False)
        finally:
            self.patches.restore()
        return {"id": self.scn["id"], "steps": self.steps, "errors": self.errors, "delivered": list(self.delivered), "calls": [{k: v for k, v in c.items()} for c in self.x.calls]}


def run_live(scn):
    saved = fconfig.simulated
    fconfig.simulated = False
    LiveRun.inst_of = {}
    LiveRun.tinst_of = {}
    try:
        return LiveRun(scn).run()
    finally:
        fconfig.simulated = saved
