"""Runs one scenario in a fresh process and prints the normalised ledger as JSON (C14).
Usage: python -m harness.run_one <scenario.json>   (env: PYTHONHASHSEED, VERIF_CLOCK_OFFSET_S, VERIF_CLOCK_STEP_S)"""
import os
import sys
import json
import datetime

ROOT = os.path.dirname(os.path.dirname(os.path.abspath(__file__)))
sys.path.insert(0, ROOT)

off = float(os.environ.get("VERIF_CLOCK_OFFSET_S", "0"))
step = float(os.environ.get("VERIF_CLOCK_STEP_S", "0"))      # the wall clock of this process also runs fast: + step per reading
if off or step:
    _real = datetime.datetime
    _reads = [0]

    def _delta():
        _reads[0] += 1
        return datetime.timedelta(seconds=off + step * _reads[0])

    class Shifted(_real):  # the "wall clock" of this process is shifted
        @classmethod
        def utcnow(cls):
            return _real.utcnow() + _delta()

        @classmethod
        def now(cls, tz=None):
            return _real.now(tz) + _delta()

    datetime.datetime = Shifted


def main():
    from harness.simdrv import run_scenario
    from harness.ledger import ledger_of
    with open(sys.argv[1]) as f:
        scn = json.load(f)
    before = datetime.datetime
    tr = run_scenario(scn, snapshots=False)
    out = {"ledger": ledger_of(tr), "restored": datetime.datetime is before, "error": tr["error"],
           "delivered": [[d[1], d[2]] for d in tr["delivered"] if d[4] == "check"], "hashseed": os.environ.get("PYTHONHASHSEED")}
    print(json.dumps(out))


if __name__ == "__main__":
    main()
