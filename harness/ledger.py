"""Normalised per-strategy order ledger of a finished run (C13 / C14)."""
from .simdrv import STATUS_NAME, pence, ms_of


def ledger_of(trace, strategy=None):
    rec = trace["rec"]
    out = []
    for lab, o in rec.orders.items():
        if strategy is not None and o.trade.strategy.name != strategy:
            continue
        s = o.simulated
        try:
            profit = pence(o.profit)
        except Exception:
            profit = -999999
        out.append({
            "o": lab, "strat": o.trade.strategy.name, "side": o.side, "type": o.order_type.ORDER_TYPE.name,
            "price": pence(getattr(o.order_type, "price", None)) if getattr(o.order_type, "price", None) is not None else 0,
            "size": pence(getattr(o.order_type, "size", None)) if o.order_type.ORDER_TYPE.name == "LIMIT" else pence(o.order_type.liability),
            "log": [STATUS_NAME[x] for x in o.status_log],
            "frags": [[ms_of(f[0]) if f[0] else -1, pence(f[1]), pence(f[2])] for f in s.matched],
            "m": pence(s.size_matched), "can": pence(s.size_cancelled), "lap": pence(s.size_lapsed), "void": pence(s.size_voided),
            "created": ms_of(o.date_time_created), "placed": ms_of(o.responses.date_time_placed),
            "supd": ms_of(o.date_time_status_update), "done": ms_of(o.date_time_execution_complete),
            "profit": profit, "rstatus": o.runner_status or "NA", "trade": rec.label_trade(o.trade),
            "tstatus": o.trade.status.name,
        })
    return out
