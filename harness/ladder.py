"""Betfair price ladder built from the exchange's published increment table
(Betfair "Price Increments": 1.01-2 by 0.01, 2-3 by 0.02, 3-4 by 0.05, 4-6 by 0.1, 6-10 by 0.2,
10-20 by 0.5, 20-30 by 1, 30-50 by 2, 50-100 by 5, 100-1000 by 10), independent of flumine.utils."""

INCREMENTS = [  # (from_cents, to_cents, step_cents)
    (101, 200, 1),
    (200, 300, 2),
    (300, 400, 5),
    (400, 600, 10),
    (600, 1000, 20),
    (1000, 2000, 50),
    (2000, 3000, 100),
    (3000, 5000, 200),
    (5000, 10000, 500),
    (10000, 100000, 1000),
]


def ladder_cents():
    out = []
    for lo, hi, st in INCREMENTS:
        c = lo
        while c < hi:
            out.append(c)
            c += st
    out.append(100000)
    return out


LADDER = ladder_cents()
assert len(LADDER) == 350
INDEX = {c: i for i, c in enumerate(LADDER)}


def price(i):
    return LADDER[i] / 100.0
