#!/bin/sh
# Offline setup: parse every TLA+ module (SANY) and self-test the harness parsers.
set -e
cd "$(dirname "$0")"
mkdir -p .work evidence replays
for f in spec/*.tla; do
  java -cp /opt/veriftools/tla/tla2tools.jar:/opt/veriftools/tla/CommunityModules-deps.jar -DTLA-Library=spec tla2sany.SANY "$f" > .work/sany.out 2>&1 || { cat .work/sany.out; echo "SANY failed: $f"; exit 1; }
  if grep -q "Semantic errors\|Parse Error\|Fatal errors" .work/sany.out; then cat .work/sany.out; echo "SANY failed: $f"; exit 1; fi
done
/venv/bin/python -m harness.selftest
echo "setup ok"
