#!/usr/bin/env python3
"""Write findings/<id>_*.live.json (a live schedule reproducing each known live-mode finding) from the
traces of the C11 / C03 quick check: the shortest trace in which the finding's matcher fires."""
import os, sys, json
ROOT = os.path.dirname(os.path.dirname(os.path.abspath(__file__)))
sys.path.insert(0, ROOT)
from checks import livecheck  # noqa: E402
from harness import findings  # noqa: E402

NAMES = {"D8": "live_restart_replaced_bets", "D13": "live_failed_placement_stays_in_live_list",
         "D21": "live_timeout_placement_never_reconciled", "D22": "live_partial_cancel_race"}


def main():
    best = {}
    for prop in ("C11", "C03", "C12"):
        out = livecheck.run_check(prop, "quick", 1, designs=[])
        if isinstance(out, int):
            continue
        for fid, vs in out["explained"].items():
            for v in vs:
                scn = out["scns"][v["trace"]]
                k = len(scn["steps"])
                if fid not in best or k < best[fid][0]:
                    best[fid] = (k, prop, v, scn)
    for fid, (k, prop, v, scn) in sorted(best.items()):
        path = os.path.join(ROOT, "findings", "%s_%s.live.json" % (fid, NAMES.get(fid, "finding")))
        with open(path, "w") as f:
            json.dump({"finding": fid, "property": prop, "formula": v["name"], "step": v["step"], "live_scenario": scn}, f)
        print(fid, prop, v["name"], "steps", k, "->", path)


if __name__ == "__main__":
    main()
