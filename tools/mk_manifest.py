#!/usr/bin/env python3
"""Regenerates MANIFEST.json from the table below (keeps it valid and in one place)."""
import json, os
ROOT = os.path.dirname(os.path.dirname(os.path.abspath(__file__)))
NOTE = ("exhaustive part: bounded design model (constants in evidence.design_runs); conformance part: sampled behaviours "
        "(seeded random / TLC-generated scenarios, bounded sizes); TLC 1.8, the recorder's projection and betfairlightweight are trusted")
TECH = ("explicit TLA+ specification; TLC exhaustive design check + TLC trace validation of traces recorded from the real code (simulation stack / "
        "live stack against an exchange double; seeded random scenarios, enumerated families, recorded market data) + TLC-generated behaviours of the closed "
        "models (MC_SimRun, MC_LiveRun) replayed into the real code with state comparison")
CHECKS = {
 "C01": "The risk gate is a TLA+ state machine (MC_Gate) model checked under acknowledgement discipline: accepted orders are within the limits counted in full and the brute-force worst-case loss stays within the per-selection limit (and TLC exhibits the breach caused by the implementation's REPLACE handling). On real runs TLC recomputes the brute-force worst case (Exposure.tla) of position + order at every accepted PLACE/REPLACE and the worst-case loss per selection at the end of every update.",
 "C02": "The request path is a TLA+ specification (Transaction.tla) model checked for exactly-once delivery, kind, per-call limit, one version per package, request order and nothing pending after exit; packages captured from real Transaction objects (three client kinds, true limits, up to 700 requests) must equal Transaction!Expected, and on simulation runs with the real controls every refused request's before/after snapshot is judged by TLC.",
 "C03": "Order life-cycle formulas (legal transition at every _update_status call, finality, one package in flight, request guards) are TLA+ formulas checked by TLC in every state of the exhaustive design model MC_SimCore and on every step of traces recorded from the real simulation stack; the traces must also be behaviours of SimCore!Step.",
 "C04": "Size conservation, non-negativity, completion iff nothing remains and matched-monotonicity: TLC-checked invariants / action properties of MC_SimCore and MC_SimMatch, evaluated by TLC on every recorded state of real runs at strategy-callback granularity.",
 "C05": "The placement decision tree is transcribed in SimMatch!Place; TLC checks the limit / level / fill-or-kill / best-price-execution formulas for every book x order of the bounded space, and on every placement the real engine performs in random runs, whose result must equal SimMatch!Place on the logged book.",
 "C06": "Passive matching is transcribed in SimMatch!Passive/FoldPassive; TLC checks lone-order exactness and the aggregate no-overfill / better-price-first formulas on all traded ladders for groups of <=3 orders, and on every middleware pass of real runs against a ledger rebuilt from the raw input lines.",
 "C07": "Release of pending packages (due iff strictly more than latency + bet delay at request time has elapsed on the market's own updates), execution against the previous book, clock = publish time and timestamp ordering are TLA+ formulas checked on the design model and on every recorded step.",
 "C08": "The exchange's settlement rules are a TLA+ module in integer arithmetic (Settlement.tla); TLC checks their laws (side symmetry, zero for unmatched/removed, dead-heat and line rules) exhaustively on a bounded space and evaluates order.profit and the cleared-market summary of every real closure against them.",
 "C09": "Runner-removal formulas (void in full and complete, reduction within half a cent applied once per market, no spurious reduction) checked by TLC on the design model and on recorded middleware passes incl. two-market runs.",
 "C16": "The closed form of get_exposures / market_exposure is proved equal to the brute-force worst case (minimum over fill subsets and admissible winner sets) by exhaustive TLC enumeration of a bounded position space; the figures returned by the real Blotter for real order objects (grid + random positions, every exclusion, prospective new orders) are judged by TLC against the brute force.",
 "C17": "The exchange's ladders are defined in TLA+ from the published increment tables (Ladder.tla) and their laws model checked; every result of get_nearest_price / price_ticks_away / make_line_prices on the grid the property names and every decision of OrderValidation on real orders over the decision table is judged by TLC against that specification.",
 "C18": "MaxTransactionCount is a TLA+ specification (TxnCount.tla) model checked for exact totals / hourly figures, blocked-iff-over after the hour check, restart on the first request of a new hour and no cross-talk; every call of the real control and every execution handler of simulation runs spanning hour and day boundaries (one or two clients) is judged against it.",
 "C19": "Reference construction / parsing is specified in OrderRefs.tla and model checked (round trip for valid separators, breakage for other lengths); references of real orders for adversarial strategy names and every separator are judged by TLC (length, characters, construction, round trip through process_current_orders of a second instance), uniqueness over >40k ids from tight loops / threads / simulated clock.",
 "C20": "Closure bookkeeping (Closure.tla: repeated CLOSED books, re-open, first-seen-closed, removal after an hour in live) is model checked; every closing update of real simulation runs is judged by the same formulas (callbacks once per closing update and receiving strategy, cleared events, flags, released state).",
 "C10": "Runner-context accounting recounted from the orders by TLA+ formulas at the end of every update (design: every reachable state; real code: every recorded update); limits checked at every accepted placement.",
 "C11": "Live reconciliation and adoption: a compact TLA+ model of one order's live life (MC_LiveRun: pool with retries, exchange bet, snapshots processed late / twice / stale, faults) is model checked for convergence at quiescence; the real Flumine + BetfairExecution are driven against an exchange double along random schedules incl. a snapshot processed between request and response and restarts into a new instance; TLC judges convergence at every quiescent point and adoption at every restart (LiveTrace.tla).",
 "C12": "Fault enumeration: every assignment of report outcomes to packages of 1..3 orders of each kind, permuted / missing cancel reports, API errors on attempts 1..4, orders completing between request and response, replayed on the real BetfairExecution (exchange double) and, for the simulated execution, random packages through the real SimulatedExecution; TLC judges none-stranded / report-to-owner / exact counts / bounded retries on every handler step.",
 "C13": "Isolation: TLC proves on the matching specification that a strategy's fills are independent of another strategy's orders when isolation is on (and finds a difference when it is off); ledgers of run(A), run(A+B), run(B+A) through the real stack are compared by TLC. Containment: exceptions injected into every callback kind; deliveries, step order and the lifecycle/accounting/blotter formulas are judged by TLC on the recorded runs.",
 "C14": "The listener filter and the event-group merge loop are a TLA+ specification (EventMerge.tla) model checked for sortedness / per-market order / exactly-once; its prediction must equal the delivered sequence of every real run; ledgers of runs in fresh processes with different hash seeds and clock offsets must be identical; the real clock must be restored, also after an aborted run.",
 "C15": "Blotter coherence: membership / live-list formulas checked by TLC on the design models and on traces of the real code (simulation and live); at the end of every update of simulation runs TLC also judges the multiplicity of every order in the primary map and each of the six views, lookup identity by order id / bet id / trade id and the exactness of the status and matched filters against a recount (ViewsOK); in live traces the status filters as answered by the code are judged at every handler step.",
}
def chk(pid, text):
    return {"property_id": pid, "quick_cmd": "./check %s --tier quick" % pid, "thorough_cmd": "./check %s --tier thorough" % pid,
            "evidence_file": "/verif/evidence/%s.json" % pid, "replay_cmd_template": "./check %s --replay {path}" % pid,
            "engine": "tlc-design + model-replay + trace-validate", "level_claimed": {"category": "model_checking", "text": text, "design_ref": "DESIGN.md section 5 (%s)" % pid},
            "level_note": NOTE, "technique": TECH}
ALL = ["C%02d" % i for i in range(1, 21)]
NA_REASON = "check not built yet in this round (work in progress; see DESIGN.md section 9)"
m = {
 "version": 1,
 "setup_cmd": "cd /verif && ./setup.sh",
 "hooks": {"guard": "FLUMINE_VERIF",
           "enable": "no source hook is needed: every observation point is reached by wrapping callables inside the checker process (harness/simdrv.py, harness/livedrv.py); checks import flumine from /repo's working tree with /venv/bin/python",
           "baseline_off_cmd": "cd /repo && /venv/bin/python -m pytest -ra -q -p no:cacheprovider --timeout=900 --continue-on-collection-errors",
           "source_commits": [], "add_only": True},
 "engines": [
  {"name": "tlc-design", "path": "harness/tlc.py", "serves_properties": sorted(CHECKS), "kind_free_text": "TLC exhaustive model checking of the TLA+ design models (spec/MC_*.tla) incl. non-vacuity witnesses"},
  {"name": "model-replay", "path": "harness/replay_sim.py", "serves_properties": ["C01", "C02", "C03", "C04", "C05", "C06", "C07", "C08", "C09", "C10", "C11", "C12", "C15", "C18", "C20"],
   "kind_free_text": "spec -> code: behaviours generated by TLC (-simulate) from the closed models MC_SimRun (one / two strategies, isolation on / off) and MC_LiveRun are stepped through the real FlumineSimulation / Flumine + BetfairExecution (harness/replay_sim.py, harness/replay_live.py); the real projected state must equal the model state after every update / step, and the recorded trace is validated like any other"},
  {"name": "live-trace-validate", "path": "spec/LiveTrace.tla", "serves_properties": ["C03", "C10", "C11", "C12", "C15", "C20"], "kind_free_text": "traces of the real Flumine / BetfairExecution against the exchange double (harness/livedrv.py) validated by TLC"},
  {"name": "trace-validate", "path": "spec/SimTrace.tla", "serves_properties": sorted(CHECKS), "kind_free_text": "traces recorded from the real code validated by TLC against the specification's transition function (conformance) and the property formulas (verdict)"}],
 "checks": [chk(p, CHECKS[p]) for p in sorted(CHECKS)],
 "not_applicable": [{"property_id": p, "reason": NA_REASON} for p in ALL if p not in CHECKS],
 "notes": "see DESIGN.md; known findings in known_findings.json; fix commits in /repo start with 'fix:'",
}
json.dump(m, open(os.path.join(ROOT, "MANIFEST.json"), "w"), indent=1)
print("checks:", len(m["checks"]), "not_applicable:", len(m["not_applicable"]))
