#!/usr/bin/env python3
"""Confirm a seeded change (written by an independent sub-agent) and run checks against it.
usage: seeded.py <worktree> <seeded_dir_name> <property> <name> [check ids...]
 1. in the scratch worktree: apply patch -> existing suite passes, demo fails; revert -> demo passes
 2. apply the patch to /repo, run the named checks (quick), undo it straight afterwards
 3. store patch.diff, demo.py, notes.md, meta.json under /verif/seeded/<name>/
"""
import os, sys, json, subprocess, shutil, time

def sh(cmd, cwd=None, env=None, timeout=1800):
    e = dict(os.environ); e.update(env or {})
    p = subprocess.run(cmd, shell=True, cwd=cwd, env=e, stdout=subprocess.PIPE, stderr=subprocess.STDOUT, text=True, timeout=timeout)
    return p.returncode, p.stdout

# the checks are run from a frozen copy of /verif (rsync) so that work in /verif does not interfere
SNAP = os.environ.get("VERIF_SNAP", "/verif")


def main():
    wt, sd, prop, name = sys.argv[1:5]
    checks = sys.argv[5:] or [prop]
    src = os.path.join(wt, sd)
    patch = os.path.join(src, "patch.diff")
    env = {"PYTHONPATH": wt}
    meta = {"property": prop, "name": name, "source": "independent sub-agent given only the property text and a scratch worktree", "ran": []}
    sh("git checkout -- flumine", cwd=wt)
    rc0, out0 = sh("/venv/bin/python %s/demo.py" % src, cwd=wt, env=env, timeout=600)
    meta["demo_without_patch_rc"] = rc0
    rc, out = sh("git apply %s" % patch, cwd=wt)
    assert rc == 0, out
    rc1, out1 = sh("/venv/bin/python %s/demo.py" % src, cwd=wt, env=env, timeout=600)
    meta["demo_with_patch_rc"] = rc1
    rct, outt = sh("/venv/bin/python -m pytest -q -p no:cacheprovider tests --deselect tests/test_integration.py --deselect tests/test_utils.py::UtilsTest::test_get_file_event_id --deselect tests/test_utils.py::UtilsTest::test_get_file_event_id_tuple 2>&1", cwd=wt, env=env, timeout=1200)
    import re as _re
    summ = [l for l in outt.splitlines() if _re.search(r"\d+ (passed|failed)", l)]
    meta["suite_with_patch"] = summ[-1].strip() if summ else outt.strip()[-200:]
    meta["suite_with_patch_rc"] = rct
    sh("git checkout -- flumine", cwd=wt)
    print("demo without patch rc=%s, with patch rc=%s, suite: %s" % (rc0, rc1, meta["suite_with_patch"]))
    confirmed = rc0 == 0 and rc1 != 0 and rct == 0 and " passed" in meta["suite_with_patch"] and "failed" not in meta["suite_with_patch"]
    meta["confirmed"] = confirmed
    # run the checks against /repo with the patch applied
    results = {}
    # SEEDED_MODE=worktree: the checks import flumine from the scratch worktree with the patch applied
    # (PYTHONPATH) instead of patching /repo - used to triage several changes in parallel; the recorded
    # result of record is the one of tools/seeded_rerun.py, which patches /repo itself
    wtmode = os.environ.get("SEEDED_MODE") == "worktree"
    if wtmode:
        rc, out = sh("git apply %s" % patch, cwd=wt)
    else:
        rc, out = sh("git -C /repo apply %s" % patch)
    assert rc == 0, out
    meta["mode"] = "worktree" if wtmode else "repo"
    try:
        for c in checks:
            t0 = time.time()
            rcc, outc = sh("cd %s && ./check %s --tier quick" % (SNAP, c), timeout=3000, env=({"PYTHONPATH": wt} if wtmode else None))
            lines = [l for l in outc.splitlines() if l.startswith(("VIOLATION", "KNOWN-FINDING", "DRIFT", "SPEC-ERROR", "MACHINERY-ERROR", "NOTE")) or " quick" in l]
            results[c] = {"exit": rcc, "wall_s": round(time.time() - t0, 1), "lines": [l[:400] for l in lines[:12]]}
            print(c, "exit", rcc, "|", " || ".join(l[:200] for l in lines[:6]))
    finally:
        if wtmode:
            sh("git checkout -- flumine", cwd=wt)
        else:
            sh("git -C /repo checkout -- .")
        if SNAP == "/verif":
            sh("cd /verif && git checkout -- evidence 2>/dev/null; rm -f /verif/replays/*")
    meta["checks"] = results
    meta["detected_by"] = [c for c, r in results.items() if r["exit"] == 1]
    dst = os.path.join("/verif/seeded", name)
    os.makedirs(dst, exist_ok=True)
    for f in ("patch.diff", "demo.py", "notes.md"):
        if os.path.exists(os.path.join(src, f)):
            shutil.copy(os.path.join(src, f), os.path.join(dst, f))
    notes = open(os.path.join(src, "notes.md")).read() if os.path.exists(os.path.join(src, "notes.md")) else ""
    meta["needs_to_manifest"] = notes[:1500]
    meta["ran"] = ["demo.py without / with the patch in the scratch worktree (PYTHONPATH=<worktree>)", "existing test suite with the patch", "./check <id> --tier quick for " + ", ".join(checks) + " with the patch applied to /repo (git apply), undone with git checkout afterwards"]
    json.dump(meta, open(os.path.join(dst, "meta.json"), "w"), indent=1)
    print("confirmed:", confirmed, "detected by:", meta["detected_by"])

if __name__ == "__main__":
    main()
