#!/usr/bin/env python3
"""Rewrite section 10 of DESIGN.md (table of seeded changes) from seeded/*/meta.json and seeded/NOTES.json."""
import os, json, glob, re
ROOT = os.path.dirname(os.path.dirname(os.path.abspath(__file__)))
notes = json.load(open(os.path.join(ROOT, "seeded", "NOTES.json")))
rows = []
for f in sorted(glob.glob(os.path.join(ROOT, "seeded", "*", "meta.json"))):
    m = json.load(open(f))
    n = notes.get(m["name"], {})
    first = m.get("history", [{}])[0].get("detected_by") if m.get("history") else None
    rows.append("| `%s` | %s | %s | %s | %s | %s |" % (
        m["name"], m["property"], n.get("what", ""), "yes" if m.get("confirmed") else "no",
        ", ".join(m["detected_by"]) or "**missed**",
        n.get("strengthened", "") if (first is not None and not first) or n.get("strengthened") else ""))
head = """## 10. Seeded changes

Two hundred and twenty-one changes written by independent sub-agents in eight waves (2 + 2 + 3 + 3 per property, then
fifteen aimed at the areas that were driven last: the BETDAQ order path, files carrying several markets, line markets in
live mode, wall-clock / hash-seed independence, the resting case of C05, twice five with free choice on C02 C08 C12 C16
C20 and on C03 C07 C10 C11 C15, and an eighth wave of two per property on eighteen properties, asked for corner clauses
and second-order effects). Each agent saw only one property's text (wave 5:
with a one-paragraph hint where in the code base to look) and a scratch worktree, nothing from `/verif`; each change
compiles, passes the existing suite and is shown by its own `demo.py` to break the property (`confirmed`: demo passes
without / fails with the patch and the suite passes with it, re-established by me in a scratch worktree).
`seeded/<name>/` holds `patch.diff`, `demo.py`, `notes.md`, `meta.json` (what it needs to manifest, what I ran, the result
of every check run, and under `history` what earlier versions of the machinery reported). `tools/seeded_rerun.py` applies
each to `/repo` (or to a scratch worktree, `--wt`), runs the quick checks and undoes it. "Strengthened" says what the
change taught: every miss of the first run was followed by a change to the machinery (never to the property), listed
here. First-run detection (any check / the property's own check): waves 1+2 28 / 27 of 40, wave 3 35 / 33 of 60, wave 4
35 / 32 of 60, wave 5 9 / 9 of 15, wave 6 5 / 5 of 5, wave 7 5 / 5 of 5, wave 8 29 / 29 of 36 (six of the seven misses
are reported after strengthening; `C03_w8_2` is not: it needs an in-flight order completed by a path the framework does
not have, see its note). The wave-8 entries were run with the checks importing flumine from the scratch worktree with the
patch applied (`meta.mode = worktree`). After strengthening, the final column is what the quick tier reports with the machinery
as committed; the few entries reported only by another property's check are marked in the notes.

"""
TABLE_HEAD = """| change | property | what it does | confirmed | detected by (quick) | strengthened after a miss |
|---|---|---|---|---|---|
"""
body = head + TABLE_HEAD + "\n".join(rows) + "\n"
p = os.path.join(ROOT, "DESIGN.md")
s = open(p).read()
i = s.index("## 10. Seeded changes")
s = s[:i] + body
open(p, "w").write(s)
print(len(rows), "rows")
