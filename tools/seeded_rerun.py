#!/usr/bin/env python3
"""Re-run the checks against every stored seeded change (seeded/<name>/) with the machinery as it is now.
usage: seeded_rerun.py [--confirm] [name ...]
  applies seeded/<name>/patch.diff to /repo (git apply), runs ./check <id> --tier quick for the property and the
  other checks listed in meta.json, undoes the patch (git checkout), and rewrites meta.json:
    checks / detected_by = the current result;  history = what earlier versions of the machinery reported.
  --confirm re-establishes 'confirmed' in a scratch worktree (demo passes without / fails with the patch, the
  existing suite passes with it) for entries where that was not recorded.
The checks are run from $VERIF_SNAP (a frozen copy of /verif) when set."""
import os, sys, json, subprocess, time, glob, re

SNAP = os.environ.get("VERIF_SNAP", "/verif")
SUITE = ("/venv/bin/python -m pytest -q -p no:cacheprovider tests --deselect tests/test_integration.py "
         "--deselect tests/test_utils.py::UtilsTest::test_get_file_event_id --deselect tests/test_utils.py::UtilsTest::test_get_file_event_id_tuple 2>&1")


def sh(cmd, cwd=None, env=None, timeout=3000):
    e = dict(os.environ); e.update(env or {})
    p = subprocess.run(cmd, shell=True, cwd=cwd, env=e, stdout=subprocess.PIPE, stderr=subprocess.STDOUT, text=True, timeout=timeout)
    return p.returncode, p.stdout


def confirm(d, meta):
    wt = "/tmp/wt_confirm"
    sh("git -C /repo worktree remove --force %s" % wt)
    rc, out = sh("git -C /repo worktree add --detach %s HEAD" % wt)
    assert rc == 0, out
    try:
        env = {"PYTHONPATH": wt}
        rc0, _ = sh("/venv/bin/python %s/demo.py" % d, cwd=wt, env=env, timeout=900)
        rc, out = sh("git apply %s/patch.diff" % d, cwd=wt)
        assert rc == 0, out
        rc1, _ = sh("/venv/bin/python %s/demo.py" % d, cwd=wt, env=env, timeout=900)
        rct, outt = sh(SUITE, cwd=wt, env=env, timeout=1500)
        summ = [l for l in outt.splitlines() if re.search(r"\d+ (passed|failed)", l)]
        meta["demo_without_patch_rc"], meta["demo_with_patch_rc"] = rc0, rc1
        meta["suite_with_patch"] = summ[-1].strip() if summ else outt.strip()[-200:]
        meta["suite_with_patch_rc"] = rct
        meta["confirmed"] = rc0 == 0 and rc1 != 0 and rct == 0 and " passed" in meta["suite_with_patch"] and "failed" not in meta["suite_with_patch"]
    finally:
        sh("git -C /repo worktree remove --force %s" % wt)


def main():
    args = sys.argv[1:]
    do_confirm = "--confirm" in args
    # --wt=<dir>: instead of patching /repo, use a scratch worktree of /repo's HEAD at <dir> (created here, removed at the
    # end) and let the checks import flumine from it (PYTHONPATH) - several of these can run side by side
    wt = None
    for a in args:
        if a.startswith("--wt="):
            wt = a.split("=", 1)[1]
    names = [a for a in args if not a.startswith("--")] or sorted(os.path.basename(os.path.dirname(p)) for p in glob.glob("/verif/seeded/*/meta.json"))
    rc, out = sh("git -C /repo status --short")
    assert wt or out.strip() == "", "uncommitted changes in /repo:\n" + out
    if wt:
        sh("git -C /repo worktree remove --force %s" % wt)
        rc, out = sh("git -C /repo worktree add --detach %s HEAD" % wt)
        assert rc == 0, out
    for name in names:
        d = os.path.join("/verif/seeded", name)
        meta = json.load(open(os.path.join(d, "meta.json")))
        if do_confirm and not meta.get("confirmed"):
            confirm(d, meta)
        # the property's own check, plus whichever other check reported the change before
        checks = [meta["property"]] + [c for c in meta.get("detected_by", []) if c != meta["property"]]
        if "--all-checks" in args:
            checks = list(dict.fromkeys(checks + list(meta.get("checks", {}).keys())))
        hist = meta.setdefault("history", [])
        if meta.get("checks") and not any(h.get("checks") == meta["checks"] for h in hist):
            hist.append({"machinery": meta.get("machinery", "first run"), "detected_by": meta.get("detected_by", []), "checks": meta["checks"]})
        if wt:
            rc, out = sh("git apply %s/patch.diff" % d, cwd=wt)
        else:
            rc, out = sh("git -C /repo apply %s/patch.diff" % d)
        if rc != 0:
            print(name, "PATCH DOES NOT APPLY", out[:200], flush=True)
            continue
        results = {}
        try:
            for c in checks:
                t0 = time.time()
                rcc, outc = sh("cd %s && ./check %s --tier quick" % (SNAP, c), env=({"PYTHONPATH": wt} if wt else None))
                lines = [l for l in outc.splitlines() if l.startswith(("VIOLATION", "KNOWN-FINDING", "DRIFT", "SPEC-ERROR", "MACHINERY-ERROR", "NOTE")) or " quick" in l]
                results[c] = {"exit": rcc, "wall_s": round(time.time() - t0, 1), "lines": [l[:400] for l in lines[:12]]}
        finally:
            if wt:
                sh("git checkout -- .", cwd=wt)
            else:
                sh("git -C /repo checkout -- .")
            if SNAP == "/verif":
                sh("cd /verif && git checkout -- evidence 2>/dev/null; rm -f /verif/replays/*")
        meta["checks"] = results
        meta["detected_by"] = [c for c, r in results.items() if r["exit"] == 1]
        meta["machinery"] = os.environ.get("VERIF_COMMIT", "current")
        meta["mode"] = "worktree" if wt else "repo"
        json.dump(meta, open(os.path.join(d, "meta.json"), "w"), indent=1)
        print(name, "confirmed", meta.get("confirmed"), "detected by", meta["detected_by"], {c: r["exit"] for c, r in results.items()}, flush=True)


if __name__ == "__main__":
    try:
        main()
    finally:
        for a in sys.argv[1:]:
            if a.startswith("--wt="):
                sh("git -C /repo worktree remove --force %s" % a.split("=", 1)[1])
